"""Per-check configuration for bin/check: budgets, evidence texts."""

MESH_REAL = ["pkg/netceptor (routing, flooding, forwarding, ageing)", "pkg/tickrunner", "pkg/utils broker",
             "pkg/framer + netceptor.ExternalBackend/netMessageConn on framed links"]
MESH_STUB = ["UDP/TCP/websocket sockets (replaced by simnet datagram sessions and simulated byte streams)"]

HOOK_COMMITS = ["fa690f5", "e00a96b", "03ee341", "6bd5a79", "6fc3993", "2eaca44"]

NOT_APPLICABLE = {
    "C20": "pure function of its inputs (names, key, validity window): no schedule, clock, fault or second party for a simulator to "
           "control; see DESIGN.md §6",
}

TECH = "deterministic simulation with fault injection (seeded plans, fake clock, simulated transport)"

CHECKS = {
    "C01": {
        "level_text": "seeded search over topologies x fault histories x delivery delays with the real Netceptor code on a simulated clock "
                      "and network; final tables compared with an independent all-pairs shortest path computation. Also: restarts on aged meshes, and a stale-incarnation scenario in which a stalled path (Hold/Release) delivers an update of a node's previous incarnation right after its restart.",
        "level_note": "sampling, not enumeration; FIFO control links; trusted base: Go synctest fake clock, simnet transport",
        "level": "exploration",
        "quick": {"runs": 480, "per_proc": 30},
        "thorough": {"runs": 24000, "per_proc": 100},
        "rule": "one run = one seeded plan (2-8 real Netceptor nodes, random weighted graph with dyadic costs, per-node cost overrides, "
                "framed and datagram FIFO links with seeded latency, 0-20 fault events: cut/heal/silent/one-way silent/node stop/"
                "restart/delay change) executed on the fake clock, then tables compared with an independent Floyd-Warshall; "
                "distinct_nontrivial counts distinct (live nodes, live edges, fault-kind set, tie batch) classes of the final ground truth",
        "real": MESH_REAL, "stub": MESH_STUB,
        "assumptions": ["control links deliver in order (FIFO), as the property's quantifier states",
                        "a restarted node comes back at least 1.5 s after it stopped (epoch granularity)",
                        "settle bound = idle limit + 5 s + 3 route periods + 12 s after the last event"],
    },
    "C02": {
        "level": "exploration",
        "level_text": "seeded search over node/service names, payload sizes up to the MTU, topologies mixing datagram links and framed byte "
                      "streams with seeded fragmentation, concurrent senders; every received datagram is matched against the multiset of sends. The thorough tier ends with a race-detector pass of the same scenarios (data races among a node's senders).",
        "level_note": "sampling; 64-bit name-hash collisions are out of reach of random search; trusted base as C01",
        "quick": {"runs": 400, "per_proc": 25},
        "thorough": {"runs": 30000, "per_proc": 100},
        "rule": "one run = 2-6 nodes with hostile node names (case variants, ':', spaces, UTF-8, long), 1-4 listeners each with 1-8 byte "
                "service names (8-byte, high-bit, look-alikes of reserved names), 20-400 datagrams of boundary and random sizes sent "
                "concurrently over paths of datagram and framed links with seeded chunking; strict batch: multiset of (listener, source, "
                "bytes) received == sent; fault batch (link cuts): never wrong, never twice; distinct_nontrivial counts distinct "
                "(nodes, links, framed links, cut, number of sizes, name set) classes",
        "real": MESH_REAL + ["pkg/netceptor PacketConn ReadFrom/WriteTo"], "stub": MESH_STUB,
        "assumptions": ["mesh converged before sending (6 s warm-up)", "reader buffers are larger than the MTU"],
    },
    "C06": {
        "level": "exploration",
        "level_text": "single-step differential probes of a real node with stale/replayed/self-origin updates through a scripted peer, plus a "
                      "relay-discipline monitor over the complete wire record of runs with loss, duplication, reordering, cuts and restarts",
        "level_note": "sampling; link delay << seen-update expiry; trusted base as C01",
        "quick": {"runs": 480, "per_proc": 30},
        "thorough": {"runs": 60000, "per_proc": 100},
        "rule": "one run = 3-6 real nodes on lossy/duplicating/reordering datagram links, one scripted peer on a clean link, 4-30 events "
                "(stale-update probes of 8 variants, node restarts with a new epoch, cuts, heals); oracles: picture unchanged and no relay "
                "for every stale probe, fresh probe applied and relayed exactly once per other neighbour, per-(node, update, session) relay "
                "count <= 1, never back on the session of first arrival, relayed copy identical except forwarder, every update stops "
                "circulating within a bound, final pictures equal real adjacencies; distinct_nontrivial counts distinct (nodes, links, "
                "probe-variant set) classes",
        "real": MESH_REAL, "stub": MESH_STUB,
        "assumptions": ["the first routing message on a fresh session is the handshake, not an update (protocol definition)",
                        "suspected-duplicate notices are flooded unconditionally (once per node); only 'changes nothing' is asserted for them"],
    },
    "C10": {
        "level": "exploration",
        "level_text": "seeded probes (datagram, ping, traceroute) over chains, rings and random graphs with every hop budget class, and "
                      "forged two- and three-node routing loops built by scripted peers; reach, expiry reporter and forward counts are "
                      "compared with the route read from the nodes' own tables and with the wire record",
        "level_note": "sampling; node default hop budget >= mesh diameter so that replies and notices can return",
        "quick": {"runs": 320, "per_proc": 20},
        "thorough": {"runs": 20000, "per_proc": 60},
        "rule": "one run = one topology (chain/ring/random, 2-8 nodes, framed and datagram links), 30-120 probes with budgets drawn from "
                "{0,1,255, d-1,d,d+1, uniform 0..255}; loop scenarios poison update IDs so that each cycle node keeps a private forged "
                "view; distinct_nontrivial counts distinct (shape, n, default budget, probe kinds, loops) classes",
        "real": MESH_REAL + ["pkg/netceptor ping/traceroute"], "stub": MESH_STUB,
        "assumptions": ["route update timers held off (1 h period) so the tables read are the tables used"],
    },
    "C07": {
        "level": "exploration",
        "level_text": "seeded sequences of hostile datagrams and raw stream bytes (grammar over every message type, JSON shape and field "
                      "type substitution, data headers, broken framing) fed by scripted peers to a real node in both protocol phases, with a "
                      "liveness probe through the victim for two well-behaved peers after every input; a worker crash or a wedge is the violation. Also: a three-way coincidence phase (route flood, first update about an unknown node, reject - all in one instant) with real-time pauses at every lock site of pkg/netceptor (lock-site yields added to a scratch copy at build time).",
        "level_note": "sampling of an unbounded input space; messages that are valid protocol requests (e.g. a well-formed routing update about a "
                      "real node, a duplicate-node notice) are honoured by design and are not generated",
        "quick": {"runs": 640, "per_proc": 40},
        "thorough": {"runs": 20000, "per_proc": 50},
        "hang_is_violation": True,
        "proc_timeout": 300,
        "rule": "one run = victim with two real neighbours (one datagram link, one framed link) and two scripted peers (datagram session, "
                "framed byte stream); 4-40 inputs of 20 kinds x parameters, each before or after the handshake; after each input: ping a->b "
                "through the victim answered and the victim's status readable; distinct_nontrivial counts distinct sets of input kinds",
        "real": MESH_REAL, "stub": MESH_STUB,
        "assumptions": ["a process crash in receptor code while running this workload is a violation; a watchdog timeout with a goroutine "
                        "dump showing receptor code spinning or waiting on a lock is a wedge"],
    },
    "C11": {
        "level": "exploration",
        "level_text": "model-based: seeded histories of handshakes, later updates, session ends and simultaneous same-ID handshakes by "
                      "scripted peers against a real node with drawn allow-lists, default costs and per-node overrides; an executable "
                      "admission model written from the property text is stepped in lockstep and compared with Status() after every step; "
                      "plus the two-real-nodes-one-ID scenario on 3-5 node meshes. Also: handshakes held in their hand-off by a peer that stops reading, and a session that ends while its receive loop is parked forwarding to a stalled neighbour, followed by reconnects under the same ID.",
        "level_note": "sampling; the reject message itself is best effort in the code (writer/close race) and only counted; same-ID claimants "
                      "attach to different neighbours and start >= 1.1 s apart",
        "quick": {"runs": 800, "per_proc": 50},
        "thorough": {"runs": 100000, "per_proc": 250},
        "rule": "one run = 1-3 backends (allow-list y/n, cost, override) x 2-5 session slots x 4-30 steps (hello/update/close/pair) or one "
                "duplicate-ID scenario; distinct_nontrivial counts distinct (backends, allow-lists, slots, step-kind set) / (dup n, attach "
                "points, gap) classes",
        "real": MESH_REAL, "stub": MESH_STUB,
        "assumptions": ["forged updates about real nodes are not sent here (C06/C07)"],
    },
    "C12": {
        "level": "exploration",
        "level_text": "seeded rule lists (literal and /regex/ patterns, any field subset, key/action case, malformed entries) installed on the "
                      "three nodes of a chain through ParseFirewallRules; 54 packets per run over all node pairs and a service alphabet; a "
                      "reference first-match evaluator written from the property text is walked along the path and along the way back of "
                      "the rejection notice, and compared with what the sockets observe. Also: the rule list replaced (reload) while a packet is between two of its rules (a harness rule function opens the window).",
        "level_note": "sampling of rule lists; the packet cross product per rule list is complete for the 3-node chain and the service alphabet",
        "quick": {"runs": 1200, "per_proc": 60},
        "thorough": {"runs": 100000, "per_proc": 300},
        "rule": "one run = three rule lists (0-4 rules each; 8% of rules carry one malformed element: unknown action/key, non-string value, bad "
                "pattern) x 54 packets; expected outcome per packet: delivered / silently gone / notice naming the original addresses from the "
                "deciding node; distinct_nontrivial counts distinct (rule counts, refused lists, outcome histogram) classes",
        "real": MESH_REAL + ["pkg/netceptor firewall_rules.go"], "stub": MESH_STUB,
        "assumptions": ["the reference evaluator uses Go's regexp for the pattern language itself; full match means ^(?:p)$"],
    },
    "C16": {
        "level": "exploration",
        "level_text": "seeded cases on 2-5 node meshes: datagrams and stream dials to services that are unbound, bound, or closed at a drawn "
                      "offset (1 us - 300 ms) before/after the packet's arrival, with 1-8 unrelated sockets on the sender and a watcher socket "
                      "on every other node; the notice must arrive exactly once, on exactly the sending socket, echoing the packet; dials must "
                      "be abandoned by the notice; policy drops must be silent. Also: tight hop budgets, sockets of the sender closed at the instant the notice arrives, and a slow consumer of notices on the sender while the case's socket is opened.",
        "level_note": "sampling; arrival instants are computed from the simulated link latencies (unique to the nanosecond), so 'closed before' "
                      "and 'closed after' are exact; the window inside handleMessageData between lookup and delivery is covered under C17",
        "quick": {"runs": 320, "per_proc": 20},
        "thorough": {"runs": 20000, "per_proc": 50},
        "hang_is_violation": True,
        "proc_timeout": 240,
        "rule": "one run = one topology and 6-40 cases of 8 kinds; distinct_nontrivial counts distinct (nodes, edges, case-kind set) classes",
        "real": MESH_REAL + ["quic-go (stream dials)", "pkg/netceptor conn.go DialContext/Listen"], "stub": MESH_STUB,
        "assumptions": ["QUIC packet counts are not bit-reproducible (random connection IDs): replay is schedule-exact, packet-count best effort"],
        "selftest": False,
    },
    "C18": {
        "level": "exploration",
        "level_text": "seeded open/close histories of advertised datagram and stream listeners on 3-6 node cyclic meshes with per-link delays of "
                      "1-400 ms (an advertisement and its withdrawal race over different paths), late joiners and node deaths; monitors sampled "
                      "every 150 ms: listed time never decreases, nothing at or before a learned withdrawal is listed; after settling: listing "
                      "== open advertised services on reachable live nodes; message budget and inter-round quiescence bound the flooding. Also: close/re-open flaps, datagram links that reorder (up to 7 s, longer than the 5 s advertisement delay), a listener closed between collection and transmission of an advertisement round, and the invariant that a listed entry disappears only after a withdrawal at least as new.",
        "level_note": "sampling; in-order links; one known finding (F12: nothing expires the advertisements of a dead or cut-off node)",
        "quick": {"runs": 480, "per_proc": 30},
        "thorough": {"runs": 40000, "per_proc": 100},
        "hang_is_violation": True,
        "proc_timeout": 300,
        "rule": "one run = one mesh, 3-30 open/close events (bursts of 1 ms to gaps of 20 s), optional late joiner, 12% of runs kill a node; "
                "distinct_nontrivial counts distinct (nodes, links, events, open services at the end, period, late join) classes",
        "real": MESH_REAL + ["quic-go listeners for advertised stream services"], "stub": MESH_STUB,
        "assumptions": ["settle = one advertisement period + 9 s"],
    },
    "C04": {
        "level": "fault_enumeration",
        "level_text": "per seeded scenario (submits with stub runners of drawn output/pace/exit status, queries, a disk-only unit) the daemon's "
                      "file-step trace is recorded fault-free and the scenario is re-run with the daemon killed at each step index (quick: 8 "
                      "sampled indices per scenario, thorough: all), plus 0-2 further crash/restart cycles at drawn steps or quiescent "
                      "instants; after the last restart every acknowledged unit must be listed with its work type, finished units with their "
                      "outcome, size and complete output, never-started units failed, and no query may block A third of the runs use a remote unit instead: controller and executor (both real Workceptor + control service) across the simulated mesh, the controller killed at a drawn step or instant and restarted; binding, outcome and bytes must survive.",
        "level_note": "a killed process loses nothing the kernel already has, so the real files are the durable state (power loss is outside "
                      "the property); the per-unit runner is the stub (same write protocol through the real StatusFileData primitives); one "
                      "known finding (F13)",
        "quick": {"runs": 160, "per_proc": 10},
        "thorough": {"runs": 1500, "per_proc": 10},
        "hang_is_violation": True,
        "proc_timeout": 600,
        "needs_receptor": False,
        "rule": "one run = one scenario x its crash points; evaluations counts scenarios, counters.crash_points_executed the crash/restart "
                "executions; distinct_nontrivial counts distinct (ops, trace length, crash cycles) classes",
        "real": ["pkg/workceptor (allocation, status records, command unit daemon side, scan/restart, GetResults)", "pkg/controlsvc session loop",
                 "pkg/netceptor (idle single node)", "lockedfile/flock on real files"],
        "stub": ["the detached command-runner process (stub task using the real UpdateBasicStatus primitive through its own directory alias)",
                 "inotify (fake watcher; the 1 s poll does the work)", "the payload command"],
        "assumptions": ["process death only (no power loss)", "restart no earlier than the instant of the crash"],
        "selftest": False,
    },
    "C05": {
        "level": "exploration",
        "level_text": "seeded producers (0-7 writes of boundary sizes around the 64 KiB read buffer, pauses 0-1.5 s, empty output, no stdout "
                      "file, failing exit) and readers asking for results from offsets {0, 1, size-1, size, middle, 65535..65537, random} at "
                      "drawn moments before, during and after the run, plain and JSON command forms, several readers at once; bytes after "
                      "the header must equal output[p:], and the stream must end after, not before, completion A quarter of the runs use a remote unit: the controller's copy must be a prefix of the executor's output at every 41 ms poll and become equal to it, across link cuts and silences, executor and relay restarts, and a silence placed exactly where the executor starts answering a results request.",
        "level_note": "local part; the remote mirroring part (link cuts, relay restarts) is listed in DESIGN.md as not built yet",
        "quick": {"runs": 600, "per_proc": 60},
        "thorough": {"runs": 50000, "per_proc": 200},
        "hang_is_violation": True,
        "proc_timeout": 300,
        "rule": "one run = 1-3 units x 1-4 result requests; distinct_nontrivial counts distinct (chunks, size bucket, offset bucket, ask time, "
                "exit status) combinations",
        "real": ["pkg/workceptor GetResults, control command 'work results', status records", "pkg/controlsvc WriteToConn"],
        "stub": ["command-runner process (stub)", "inotify"],
        "assumptions": ["'finished' for the end-of-stream condition means succeeded or failed"],
        "selftest": False,
    },
    "C13": {
        "level": "exploration",
        "level_text": "seeded histories of submit / burst-submit / status / list / cancel / release / force-release / results from 4 concurrent "
                      "clients against stub-runner units; a monitor on every status rewrite (old and new record read under the writer's lock "
                      "through the step hook) and on every client-visible report checks stage monotonicity, frozen succeeded units and "
                      "non-shrinking sizes; released units must be gone from disk and from every later answer; IDs and directories unique. "
                      "Requests also name units by other spellings of their directory (<id>/, <id>/., ./<id>, <id>//, ../<node>/<id>): no two known "
                      "units may designate one directory. "
                      "Also: lookups by other sessions inside a release's removal window, and (15 % of the runs) scheduled histories of updates, loads and "
                      "in-memory reports on one unit - what the daemon reports from memory never goes back",
        "level_note": "about 1 run in 20 replaces the stub runner by the real runner binary built from the tree (real shell payloads, some "
                      "ignoring SIGINT), parked and released at its file steps through the step gate: there 'cancel stops the process' is "
                      "checked against /proc, and the runner process's own writes are checked for forward-only stages",
        "needs_receptor": True,
        "quick": {"runs": 320, "per_proc": 20},
        "thorough": {"runs": 20000, "per_proc": 50},
        "hang_is_violation": True,
        "proc_timeout": 600,
        "rule": "one run = 6-50 operations; distinct_nontrivial counts distinct (units, released, operation-kind set) classes",
        "real": ["pkg/workceptor (daemon side in every run; the command-runner process in the real-runner runs)", "pkg/controlsvc"],
        "stub": ["command-runner process (stub) in 19 of 20 runs", "inotify"],
        "assumptions": ["real-runner runs use wall-clock time (a child process cannot live on the simulated clock); their oracles depend on order and stored data only"],
        "selftest": False,
    },
    "C14": {
        "level": "exploration",
        "level_text": "seeded interleavings of read-modify-write updates, runner-style basic updates and loads issued by 1-3 simulated OS "
                      "processes (own StatusFileData, own descriptors, own directory alias) and 0-3 daemon goroutines on one BaseWorkUnit; a "
                      "scheduler runs exactly one task at a time and switches at every file step (lock, open, write, truncate, read), "
                      "releasing a task into a lock step when a non-blocking flock probe succeeds or, now and then, while the lock is held, so that "
                      "it sleeps in the kernel's flock as a real queued waiter; one plan in three has a process write a final state mid-history; "
                      "every history is checked with "
                      "porcupine against a sequential record model, plus per-owner update counts and parse results of every load. Also: first writes on an "
                      "empty record, absolute assignments repeated through long-lived record objects (register semantics), and the daemon's in-memory view "
                      "(never goes back; own goroutines' updates visible from the moment they return), with daemon tasks interleaving wherever the unit's "
                      "mutex lets them",
        "level_note": "the exclusion exercised is the real flock on real files; daemon goroutines are admitted into an operation one at a time "
                      "(they serialise on the unit's mutex in the code); histories are <= 24 operations so the linearizability check is exact; "
                      "about 1 run in 50 pits the daemon against the real runner binary instead (order of the two first updates decided by the "
                      "simulator through the step gate; fields owned by the daemon must survive every update of the runner process)",
        "needs_receptor": True,
        "quick": {"runs": 3000, "per_proc": 300},
        "thorough": {"runs": 300000, "per_proc": 2000},
        "hang_is_violation": True,
        "proc_timeout": 300,
        "rule": "one run = one seeded schedule of one operation mix; distinct_nontrivial counts distinct (processes, daemon goroutines, "
                "operation counts, choice-point bucket) classes; counters.sched_choice_points is the number of scheduling decisions with "
                "more than one eligible task",
        "real": ["pkg/workceptor StatusFileData Save/Load/UpdateFullStatus, BaseWorkUnit wrappers", "lockedfile/flock"],
        "stub": ["none (no clock, no network in this protocol)"],
        "assumptions": ["flock is per open file description, so goroutines with separate descriptors contend like separate processes"],
        "selftest": False,
    },
    "C08": {
        "level": "exploration",
        "level_text": "seeded sequences of hostile control-service input (27 kinds: unknown commands, broken/deep JSON, every built-in command "
                      "with a field of every wrong JSON type, work subcommands with missing/extra/mistyped arguments, unknown, disk-only and "
                      "path-character unit IDs, over-long and unterminated lines, binary, disconnects mid-line and mid-submit) from 4 concurrent "
                      "sessions (unix and tcp) against a node with units in several states; a line that is not a valid command must be "
                      "answered with ERROR; after every input the same session and a fresh one must answer status / work list / ping. Also: sessions that overlap inside one another's commands (list/status inside a release's removal window; two first touches of a disk-only unit).",
        "level_note": "sampling of an unbounded input space; process crash or wedge (watchdog + goroutine dump) is the violation",
        "quick": {"runs": 480, "per_proc": 30},
        "thorough": {"runs": 40000, "per_proc": 100},
        "hang_is_violation": True,
        "proc_timeout": 300,
        "rule": "one run = 5-45 inputs spread over 4 clients; distinct_nontrivial counts distinct sets of input kinds",
        "real": ["pkg/controlsvc (session loop, all built-in commands)", "pkg/workceptor control commands and unit index", "pkg/netceptor (ping)"],
        "stub": ["command-runner process (stub)", "unix/tcp sockets (simulated pipes reporting the right network)", "reload without a config file"],
        "assumptions": ["path-character unit IDs are limited to two levels of '..' so that the check cannot delete its own scratch root"],
        "selftest": False,
    },
    "C15": {
        "level": "exploration",
        "level_text": "seeded cells of the table command {submit, cancel, release, force-release, results} x connection kind {unix, tcp} x work type "
                      "{verifying, non-verifying, remote signed/unsigned, unknown} x 19 token kinds (absent, garbage, truncated, valid, expired "
                      "against the simulated clock incl. a token that expires while waiting, other audience/key, alg none, HMAC keyed with the "
                      "public key, tampered payload, ...), each against a freshly created target unit; the verdict of an independent table "
                      "written from the property text is compared with the reply, and on refusal the unit directories, record identity and "
                      "streamed bytes must be unchanged. Also: spellings of the protected type's name that are not its name, and a token honoured once and replayed after its expiry.",
        "level_note": "the table is finite; runs sample it (8-24 cells per run) and evidence lists the distinct cells covered; RS256 and "
                      "no-expiry tokens signed by the configured key are not decided by the property text and only counted; mesh-stream "
                      "sessions behave as tcp for this property (anything that is not the unix socket) and are not driven separately",
        "quick": {"runs": 240, "per_proc": 20},
        "thorough": {"runs": 6000, "per_proc": 50},
        "rule": "one run = 8-24 cells; distinct_nontrivial counts distinct cell multisets; coverage.counters give how many cells required refusal, "
                "acceptance, or concerned an unexpected token",
        "real": ["pkg/workceptor processSignature/VerifySignature/createSignature, control commands", "golang-jwt against the simulated clock"],
        "stub": ["command-runner process (stub)", "the remote node of remote units (unreachable)"],
        "assumptions": [],
        "selftest": False,
    },
    "C19": {
        "level": "exploration",
        "level_text": "seeded parameter maps (15 spellings: secret_ in every letter case, look-alikes that are not secret, non-ASCII) with unique marker "
                      "values, remote submissions with no / a real / an unknown TLS client profile, then histories of status / list / cancel / "
                      "force-release and crash-restarts (records are reloaded from disk, where secrets are kept); no marker of a secret "
                      "parameter may occur in any byte sent to a control client, all other parameters must be reported unchanged, and a "
                      "submission with secrets and no TLS profile must be refused leaving no file and causing no mesh traffic. Also: the node killed at a drawn file step during the submission and restarted, and submissions that fail half-way (unparsable ttl); every later listing is scanned.",
        "level_note": "sampling; the remote node is unreachable, so what is sent to it once a TLS profile is named is not observed here",
        "quick": {"runs": 600, "per_proc": 50},
        "thorough": {"runs": 60000, "per_proc": 200},
        "rule": "one run = one parameter map x TLS choice x connection kind x 3-16 operations; distinct_nontrivial counts distinct (keys, secret "
                "present, tls, connection, operation kinds) classes",
        "real": ["pkg/workceptor remote unit Status/UnredactedStatus, AllocateRemoteUnit, unitStatusForCFR, control commands"],
        "stub": ["the remote node (unreachable)"],
        "assumptions": [],
        "selftest": False,
    },
    "C03": {
        "level": "exploration",
        "level_text": "seeded bidirectional transfers (0 B - 2 MB, write sizes 1 B - 64 KiB, half-close by each writer) over real QUIC streams on "
                      "1-4 hop paths whose datagram links lose (<= 5 %), duplicate, delay and reorder every message by a hash of (seed, link, "
                      "direction, n), optionally with the first link of the active path cut while a more expensive path exists; the same "
                      "transfers through the control service's connect bridge and through BridgeConns with a simulated TCP-side pipe; "
                      "bytes read must equal bytes written in order, end-of-stream only after all data, completion within 400 s after "
                      "faults stop. Also: other dials to the same service abandoned before or after their handshake, and a neighbouring stream whose far listener disappears while it keeps writing.",
        "level_note": "quic-go runs with every clock read 1 ns late (sim/overlay/README) so that its strict deadline comparisons work on a "
                      "clock that lands exactly on timer deadlines; QUIC packet counts are not bit-reproducible; one known finding (F15)",
        "quick": {"runs": 320, "per_proc": 20},
        "thorough": {"runs": 12000, "per_proc": 40},
        "hang_is_violation": True,
        "proc_timeout": 600,
        "rule": "one run = one transfer pair; distinct_nontrivial counts distinct (hops, lossy links, via, size buckets, cut) classes",
        "real": MESH_REAL + ["quic-go fork (clock reads skewed by 1 ns)", "pkg/netceptor conn.go Listen/Dial/Conn", "pkg/utils BridgeConns",
                             "pkg/controlsvc connect command"],
        "stub": MESH_STUB + ["net.Listen side of the TCP proxy services (a simulated pipe feeds BridgeConns)"],
        "assumptions": ["dialers redial links whose session ended (700 ms poll)", "establishing a connection may fail under loss and is retried; "
                        "the property is about established streams",
                        "through a bridge to an ordinary socket only one half-close can be expressed, so the responder answers after the "
                        "request's end-of-stream"],
        "selftest": False,
    },
    "C17": {
        "level": "exploration",
        "level_text": "seeded histories of 17 kinds of open/dial/ping/accept/close operations (datagram sockets and stream listeners with and "
                      "without advertisement, successful / cancelled / refused dials, double Close, Close+CloseConnection, pings to known and "
                      "unknown nodes) on two real nodes with real QUIC, with bursts of remote and local senders in flight towards a socket at "
                      "the instant it is closed and seeded pauses inside the lookup-to-delivery window; a crash or lock cycle is a violation; "
                      "after everything is closed and 50 s (QUIC idle timeout + margin) have passed the listener registries must be empty "
                      "and the goroutines of receptor/quic-go code must be back at the baseline; after Shutdown none may remain and nothing "
                      "may be sent. Also: sockets opened and closed by application goroutines at the time of the shutdown.",
        "level_note": "goroutines started by the application (readers, acceptors) are not counted; the leak criterion is absolute (baseline), "
                      "which is stricter than 'does not grow with history'",
        "quick": {"runs": 400, "per_proc": 25},
        "thorough": {"runs": 20000, "per_proc": 50},
        "hang_is_violation": True,
        "proc_timeout": 300,
        "rule": "one run = 5-40 operations, finished either by closing everything or by Shutdown with objects open; distinct_nontrivial counts "
                "distinct (ending, operation-kind set) classes",
        "real": MESH_REAL + ["quic-go fork (clock reads skewed by 1 ns)", "pkg/netceptor conn.go, packetconn.go, ping.go", "pkg/utils broker"],
        "stub": MESH_STUB,
        "assumptions": [],
        "selftest": False,
    },
    "C09": {
        "level": "exploration",
        "level_text": "seeded cases of the certificate product {trusted / other authority / self-signed} x {valid / expired / not yet valid / "
                      "expiring between configuration and presentation, against the simulated clock} x {server, client, both, other, no key "
                      "usage} x {expected ID, other ID, several IDs with / without it, none} x {expected DNS name y/n} x pin lists {none, sha256, "
                      "sha512, sha224, non-matching, wrong length, mixed}, for client and server verification in receptor and DNS name modes, "
                      "observed at three layers: the installed VerifyPeerCertificate, a TLS handshake over a simulated pipe "
                      "(PrepareTLS*Config / GetClientTLSConfig output), and a mutually authenticated QUIC stream listener on a two-node mesh "
                      "where the dialling node presents the certificate under test; an independent decision procedure written from the "
                      "property text gives the expected verdict. Also: histories on one long-lived TLS configuration (several clients on one listener configuration, repeated lookups of one client configuration), and overlapping handshakes of a legitimate node and an impostor on one mutually authenticated listener.",
        "level_note": "the product is finite; a run samples 43-123 cells, the time dimension and the mesh identity binding are the simulated parts; "
                      "certificates use ECDSA keys from an in-harness CA (the property is about verification, not issuance: that is C20)",
        "quick": {"runs": 200, "per_proc": 20},
        "thorough": {"runs": 8000, "per_proc": 50},
        "hang_is_violation": True,
        "proc_timeout": 300,
        "rule": "one run = 40-120 verify/pipe cases + 3 mesh cases; distinct_nontrivial counts distinct case multisets; counters.layer_* give the "
                "number of cases per observation layer",
        "real": ["pkg/netceptor ReceptorVerifyFunc, GetClientTLSConfig, PrepareTLSServerConfig/PrepareTLSClientConfig, conn.go listen/Dial", "crypto/tls, crypto/x509 against the simulated clock",
                 "quic-go fork (clock skew copy)", "pkg/utils receptor-name extension"],
        "stub": ["TCP/websocket sockets under the TLS handshake (simulated pipe)"],
        "assumptions": ["fingerprints of other lengths than sha256/sha512 are configuration errors, as the configuration layer has it"],
        "selftest": False,
    },
}
