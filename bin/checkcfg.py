"""Per-check configuration for bin/check: budgets, evidence texts."""

MESH_REAL = ["pkg/netceptor (routing, flooding, forwarding, ageing)", "pkg/tickrunner", "pkg/utils broker",
             "pkg/framer + netceptor.ExternalBackend/netMessageConn on framed links"]
MESH_STUB = ["UDP/TCP/websocket sockets (replaced by simnet datagram sessions and simulated byte streams)"]

CHECKS = {
    "C01": {
        "level": "exploration",
        "quick": {"runs": 480, "per_proc": 30},
        "thorough": {"runs": 24000, "per_proc": 100},
        "rule": "one run = one seeded plan (2-8 real Netceptor nodes, random weighted graph with dyadic costs, per-node cost overrides, "
                "framed and datagram FIFO links with seeded latency, 0-20 fault events: cut/heal/silent/one-way silent/node stop/"
                "restart/delay change) executed on the fake clock, then tables compared with an independent Floyd-Warshall; "
                "distinct_nontrivial counts distinct (live nodes, live edges, fault-kind set, tie batch) classes of the final ground truth",
        "real": MESH_REAL, "stub": MESH_STUB,
        "assumptions": ["control links deliver in order (FIFO), as the property's quantifier states",
                        "a restarted node comes back at least 1.5 s after it stopped (epoch granularity)",
                        "settle bound = idle limit + 5 s + 3 route periods + 12 s after the last event"],
    },
}
