#!/usr/bin/env python3
"""Regenerate /verif/MANIFEST.json from bin/checkcfg.py (single source of truth)."""
import json, os, sys
VERIF = os.path.dirname(os.path.dirname(os.path.abspath(__file__)))
sys.path.insert(0, os.path.join(VERIF, "bin"))
from checkcfg import CHECKS, TECH, NOT_APPLICABLE, HOOK_COMMITS

props = [json.loads(l) for l in open(os.path.join(VERIF, "properties.jsonl"))]
m = {
    "version": 1,
    "setup_cmd": "cd /verif && bin/check setup",
    "hooks": {
        "guard": "verif",
        "enable": "bin/check builds with `go1.26.8 test -c -tags verif -overlay <scratch>/lockyield/overlay.json ./checks/` in /verif/sim (go.mod: replace github.com/ansible/receptor => /repo); the overlay is generated at build time from /repo's working tree by sim/cmd/lockyield and only adds verifhook.Yield(\"lock\", site) before each Lock()/RLock() statement of pkg/netceptor (nothing in /repo is touched)",
        "baseline_off_cmd": "cd /repo && go test -vet=off -count=1 -timeout 25m ./...",
        "source_commits": HOOK_COMMITS,
        "add_only": True,
    },
    "engines": [{
        "name": "simnet", "path": "/verif/sim", "serves_properties": sorted(CHECKS),
        "kind_free_text": "deterministic simulation: the real netceptor / workceptor / controlsvc code inside a Go 1.26 testing/synctest "
                          "bubble (fake clock, quiescence), simulated links, byte streams, scripted peers, file-step hooks, crashes; one seed = "
                          "one plan; in-run decisions are hashes of (seed, identity); generic plan shrinker; replay files",
    }],
    "checks": [],
    "not_applicable": [],
    "notes": "see DESIGN.md; bin/check <ID> --tier quick|thorough; bin/check selftest for the determinism self-test",
}
for p in props:
    cid = p["id"]
    if cid in CHECKS:
        c = CHECKS[cid]
        m["checks"].append({
            "property_id": cid,
            "quick_cmd": f"cd /verif && bin/check {cid} --tier quick",
            "thorough_cmd": f"cd /verif && bin/check {cid} --tier thorough --race-pass 96",
            "evidence_file": f"/verif/evidence/{cid}.json",
            "replay_cmd_template": f"cd /verif && bin/check {cid} --replay {{path}}",
            "engine": "simnet",
            "level_claimed": {"category": c.get("level", "exploration"), "text": c["level_text"], "design_ref": f"DESIGN.md §3 {cid}"},
            "level_note": c["level_note"],
            "technique": c.get("technique", TECH),
        })
    else:
        m["not_applicable"].append({"property_id": cid, "reason": NOT_APPLICABLE.get(cid, "check not built yet (work in progress; DESIGN.md §9)")})
json.dump(m, open(os.path.join(VERIF, "MANIFEST.json"), "w"), indent=1)
print("claimed:", [c["property_id"] for c in m["checks"]])
