package simnet

import (
	"encoding/binary"
	"fmt"
	"io"
	"net"
	"os"
	"sort"
	"sync"
	"time"
)

// Conn is one end of a simulated reliable byte stream (a TCP or websocket
// connection as the framer sees it).  Reads return seeded chunk sizes, so the
// real framer meets arbitrary fragmentation and coalescing.
type Conn struct {
	w    *World
	l    *Link
	gen  int
	side int
	peer *Conn
	name string
	// Network reported by RemoteAddr().Network(): "unix", "tcp", ...
	NetworkName string
	// RecordFrames: parse writes as length-prefixed frames for the wire record.
	RecordFrames bool
	// CanonTies: every Write is one whole frame written by a node (not by a scripted peer, whose chunks must
	// stay in order): frames written in one instant are put on the wire in canonical order (see Session.Send).
	CanonTies bool

	mu       sync.Mutex
	buf      []byte
	eof      bool
	closed   bool
	severed  bool
	notify   chan struct{}
	deadline time.Time
	readN    int
	writeN   int
	lastAt   time.Duration
	batch    []sendItem
}

type simAddr struct{ network, s string }

func (a simAddr) Network() string { return a.network }
func (a simAddr) String() string  { return a.s }

func (c *Conn) isOpen() bool {
	c.mu.Lock()
	defer c.mu.Unlock()
	return !c.closed && !c.severed && !c.eof
}

func (c *Conn) sever() {
	c.mu.Lock()
	c.severed = true
	c.buf = nil
	c.mu.Unlock()
	c.wake()
}

func (c *Conn) wake() {
	select {
	case c.notify <- struct{}{}:
	default:
	}
}

func (c *Conn) push(data []byte, eof bool) {
	c.mu.Lock()
	if c.closed || c.severed {
		c.mu.Unlock()
		return
	}
	if eof {
		c.eof = true
	} else {
		c.buf = append(c.buf, data...)
	}
	c.mu.Unlock()
	c.wake()
}

type timeoutErr struct{}

func (timeoutErr) Error() string   { return "i/o timeout" }
func (timeoutErr) Timeout() bool   { return true }
func (timeoutErr) Temporary() bool { return true }
func (timeoutErr) Unwrap() error   { return os.ErrDeadlineExceeded }

// Read returns between 1 and len(p) bytes; how many is a pure hash of the
// seed and the read index.
func (c *Conn) Read(p []byte) (int, error) {
	if len(p) == 0 {
		return 0, nil
	}
	var timer *time.Timer
	defer func() {
		if timer != nil {
			timer.Stop()
		}
	}()
	for {
		c.mu.Lock()
		if c.severed {
			c.mu.Unlock()
			return 0, io.ErrUnexpectedEOF
		}
		if c.closed {
			c.mu.Unlock()
			return 0, net.ErrClosed
		}
		if len(c.buf) > 0 {
			avail := len(c.buf)
			if avail > len(p) {
				avail = len(p)
			}
			n := c.chunk(avail)
			copy(p, c.buf[:n])
			c.buf = c.buf[n:]
			c.readN++
			c.mu.Unlock()
			return n, nil
		}
		if c.eof {
			c.mu.Unlock()
			return 0, io.EOF
		}
		dl := c.deadline
		c.mu.Unlock()
		var tc <-chan time.Time
		if !dl.IsZero() {
			d := time.Until(dl)
			if d <= 0 {
				return 0, timeoutErr{}
			}
			if timer == nil {
				timer = time.NewTimer(d)
			} else {
				timer.Reset(d)
			}
			tc = timer.C
		}
		select {
		case <-c.notify:
		case <-tc:
			return 0, timeoutErr{}
		}
	}
}

// chunk picks how many of the avail bytes this read returns.
func (c *Conn) chunk(avail int) int {
	if c.l == nil {
		return avail
	}
	h := H(c.w.Seed, "chunk", c.l.Name, c.gen, c.side, c.readN)
	switch h % 8 {
	case 0:
		return 1
	case 1:
		if avail >= 2 {
			return 2
		}
		return avail
	case 2:
		if avail >= 3 {
			return 3
		}
		return avail
	case 3, 4:
		return 1 + int((h>>8)%uint64(avail))
	default:
		return avail
	}
}

// Write hands the bytes to the link; they arrive in order after the link latency.
func (c *Conn) Write(p []byte) (int, error) {
	c.mu.Lock()
	if c.closed || c.severed {
		c.mu.Unlock()
		return 0, fmt.Errorf("write on closed connection")
	}
	if c.w.OverBudget() {
		c.mu.Unlock()
		c.w.Count("fate_budget", 1)
		return len(p), nil
	}
	cp := append([]byte(nil), p...)
	if !c.CanonTies || c.l == nil {
		c.mu.Unlock()
		c.write1(cp, c.w.Now())
		return len(p), nil
	}
	c.batch = append(c.batch, sendItem{cp, c.w.Now()})
	first := len(c.batch) == 1
	c.mu.Unlock()
	if first {
		time.AfterFunc(time.Nanosecond, c.flush)
	}
	return len(p), nil
}

func (c *Conn) flush() {
	c.mu.Lock()
	batch := c.batch
	c.batch = nil
	gone := c.severed
	c.mu.Unlock()
	if gone || len(batch) == 0 {
		return
	}
	if len(batch) > 1 {
		keys := make([]string, len(batch))
		for i := range batch {
			if len(batch[i].data) > 2 {
				keys[i] = tieKey(batch[i].data[2:])
			}
		}
		idx := make([]int, len(batch))
		for i := range idx {
			idx[i] = i
		}
		sort.SliceStable(idx, func(a, b int) bool {
			if batch[idx[a]].at != batch[idx[b]].at {
				return batch[idx[a]].at < batch[idx[b]].at
			}
			return keys[idx[a]] < keys[idx[b]]
		})
		sorted := make([]sendItem, len(batch))
		for i, j := range idx {
			sorted[i] = batch[j]
		}
		batch = sorted
		c.w.Count("same_instant_batches", 1)
	}
	for _, it := range batch {
		c.write1(it.data, it.at)
	}
}

func (c *Conn) write1(cp []byte, sent time.Duration) {
	c.mu.Lock()
	n := c.writeN
	c.writeN++
	c.mu.Unlock()
	delay := time.Millisecond
	fate := "deliver"
	var recs []*WireRec
	if c.l != nil {
		c.l.mu.Lock()
		silent := c.l.silent[c.side]
		delay = c.l.Cfg.Latency + c.l.extra
		c.l.mu.Unlock()
		if c.l.Cfg.Jitter > 0 {
			delay += time.Duration(H(c.w.Seed, "jit", c.l.Name, c.gen, c.side, n) % uint64(c.l.Cfg.Jitter))
		}
		if silent {
			fate = "silent"
		}
		if c.RecordFrames {
			recs = c.recordFrames(cp, fate, sent)
		}
	}
	if fate == "silent" {
		return
	}
	now := c.w.Now()
	at := sent + delay
	if at <= now {
		at = now + time.Nanosecond
	}
	c.mu.Lock()
	if at <= c.lastAt {
		at = c.lastAt + time.Nanosecond
	}
	c.lastAt = at
	c.mu.Unlock()
	peer := c.peer
	time.AfterFunc(at-now, func() {
		for _, r := range recs {
			if !peer.isOpen() {
				break
			}
			c.w.delivered(r)
		}
		peer.push(cp, false)
	})
}

func (c *Conn) recordFrames(p []byte, fate string, sent time.Duration) (recs []*WireRec) {
	// netMessageConn / TCPSession write exactly one frame per Write call.
	for len(p) >= 2 {
		n := int(binary.LittleEndian.Uint16(p[:2]))
		if len(p) < 2+n {
			break
		}
		recs = append(recs, c.w.recordAt(sent, c.l, c.gen, c.name, c.peer.name, p[2:2+n], fate))
		p = p[2+n:]
	}
	return recs
}

// Close closes this end; the peer reads what is in flight and then EOF.
func (c *Conn) Close() error {
	c.mu.Lock()
	if c.closed {
		c.mu.Unlock()
		return nil
	}
	c.closed = true
	sev := c.severed
	c.buf = nil
	c.mu.Unlock()
	c.flush() // what was written before the close is in flight
	c.wake()
	if !sev {
		if c.l != nil {
			c.w.Event("link %s#%d closed by %s", c.l.Name, c.gen, c.name)
		}
		now := c.w.Now()
		lat := time.Millisecond
		if c.l != nil {
			lat = c.l.Cfg.Latency
		}
		at := now + lat
		c.mu.Lock()
		if at <= c.lastAt {
			at = c.lastAt + time.Nanosecond
		}
		c.lastAt = at
		c.mu.Unlock()
		peer := c.peer
		time.AfterFunc(at-now, func() { peer.push(nil, true) })
	}
	return nil
}

// CloseWrite half-closes: peer sees EOF, this end can still read.
func (c *Conn) CloseWrite() error {
	c.flush()
	now := c.w.Now()
	lat := time.Millisecond
	if c.l != nil {
		lat = c.l.Cfg.Latency
	}
	at := now + lat
	c.mu.Lock()
	if at <= c.lastAt {
		at = c.lastAt + time.Nanosecond
	}
	c.lastAt = at
	c.mu.Unlock()
	peer := c.peer
	time.AfterFunc(at-now, func() { peer.push(nil, true) })
	return nil
}

func (c *Conn) LocalAddr() net.Addr  { return simAddr{c.network(), c.name} }
func (c *Conn) RemoteAddr() net.Addr { return simAddr{c.network(), c.peer.name} }
func (c *Conn) network() string {
	if c.NetworkName != "" {
		return c.NetworkName
	}
	return "sim"
}

func (c *Conn) SetDeadline(t time.Time) error { return c.SetReadDeadline(t) }
func (c *Conn) SetReadDeadline(t time.Time) error {
	c.mu.Lock()
	c.deadline = t
	c.mu.Unlock()
	c.wake()
	return nil
}
func (c *Conn) SetWriteDeadline(time.Time) error { return nil }

// ConnectStream brings up a new generation and returns its two byte-stream ends.
func (l *Link) ConnectStream() (*Conn, *Conn) {
	l.mu.Lock()
	l.gen++
	g := l.gen
	a := &Conn{w: l.w, l: l, gen: g, side: 0, name: l.Ends[0], notify: make(chan struct{}, 1), RecordFrames: true}
	b := &Conn{w: l.w, l: l, gen: g, side: 1, name: l.Ends[1], notify: make(chan struct{}, 1), RecordFrames: true}
	a.peer, b.peer = b, a
	l.sess[0], l.sess[1] = a, b
	l.mu.Unlock()
	l.w.Event("link %s up gen %d (stream)", l.Name, g)
	return a, b
}

// Pipe returns a connected pair of stream ends that belong to no link (control
// sessions, proxy stand-ins).  network is what RemoteAddr().Network() reports
// on end a (the server side sees it as the client's network).
func (w *World) Pipe(nameA, nameB, network string) (*Conn, *Conn) {
	a := &Conn{w: w, name: nameA, notify: make(chan struct{}, 1), NetworkName: network}
	b := &Conn{w: w, name: nameB, notify: make(chan struct{}, 1), NetworkName: network}
	a.peer, b.peer = b, a
	return a, b
}
