package simnet

import (
	"bufio"
	"encoding/json"
	"fmt"
	"os"
	"runtime"
	"runtime/debug"
	"sort"
	"strconv"
	"strings"
	"sync"
	"testing"
	"testing/synctest"
	"time"
)

// Violation is one failed oracle.  Sig is the stable class signature used for
// shrinking ("same violation class") and for the known-findings file.
type Violation struct {
	Sig    string `json:"sig"`
	Detail string `json:"detail"`
}

// Result is what one simulated run reports.
type Result struct {
	Property   string           `json:"property"`
	Seed       uint64           `json:"seed"`
	Violations []Violation      `json:"violations"`
	Stats      map[string]int64 `json:"stats"`
	LogHash    string           `json:"log_hash"`
	LogLines   int              `json:"log_lines"`
	SimSeconds float64          `json:"sim_seconds"`
	// Class is the run's coverage class (what makes it distinct from other
	// runs by the check's stated rule); "" marks a trivial run.
	Class   string `json:"class"`
	WallMs  int64  `json:"wall_ms"`
	Plan    any    `json:"plan,omitempty"`
	Skipped string `json:"skipped,omitempty"`
}

func (r *Result) Violate(sig, format string, a ...any) {
	if len(r.Violations) >= 40 {
		r.Add("violations_not_listed", 1)
		return
	}
	d := fmt.Sprintf(format, a...)
	if len(d) > 2000 {
		d = d[:2000] + "…"
	}
	r.Violations = append(r.Violations, Violation{Sig: sig, Detail: d})
}

func (r *Result) Add(name string, d int64) {
	if r.Stats == nil {
		r.Stats = map[string]int64{}
	}
	r.Stats[name] += d
}

func (r *Result) Merge(stats map[string]int64) {
	for k, v := range stats {
		r.Add(k, v)
	}
}

// Check is one property's generator and executor.
type Check struct {
	ID string
	// Gen builds the plan for a seed; it may only use NewRng(seed, …).
	Gen func(seed uint64, tier string) any
	// NewPlan returns an empty plan to unmarshal a replay file into.
	NewPlan func() any
	// Run executes one plan (it creates its own bubble) and reports.
	Run func(t *testing.T, plan any, res *Result)
}

var outMu sync.Mutex

func emit(out *bufio.Writer, v any) {
	b, err := json.Marshal(v)
	if err != nil {
		b = []byte(fmt.Sprintf(`{"error":%q}`, err.Error()))
	}
	outMu.Lock()
	_, _ = out.Write(b)
	_ = out.WriteByte('\n')
	_ = out.Flush()
	outMu.Unlock()
}

// RunCheck is the entry point of every TestCxx function.
//
//	VERIF_OUT    file receiving one JSON line per run (default stdout)
//	VERIF_SEEDS  "first:count" — seeds to run
//	VERIF_TIER   quick | thorough
//	VERIF_PLAN   path of a plan/replay file: run exactly that plan
//	VERIF_KEEP_PLANS  number of sample plans to include in the output
func RunCheck(t *testing.T, c Check) {
	debug.SetTraceback("all")
	outPath := os.Getenv("VERIF_OUT")
	var out *bufio.Writer
	if outPath != "" {
		f, err := os.OpenFile(outPath, os.O_CREATE|os.O_WRONLY|os.O_APPEND, 0o644)
		if err != nil {
			t.Fatalf("VERIF_OUT: %v", err)
		}
		defer f.Close()
		out = bufio.NewWriter(f)
	} else {
		out = bufio.NewWriter(os.Stdout)
	}
	tier := os.Getenv("VERIF_TIER")
	if tier == "" {
		tier = "quick"
	}
	keep, _ := strconv.Atoi(os.Getenv("VERIF_KEEP_PLANS"))

	runOne := func(seed uint64, plan any, includePlan bool) {
		emit(out, map[string]any{"run": seed, "property": c.ID})
		res := &Result{Property: c.ID, Seed: seed, Stats: map[string]int64{}}
		start := time.Now()
		if os.Getenv("VERIF_GEN_ONLY") != "" {
			res.Plan = plan
			res.Skipped = "gen-only"
			emit(out, res)
			return
		}
		c.Run(t, plan, res)
		res.WallMs = time.Since(start).Milliseconds()
		if includePlan || len(res.Violations) > 0 {
			res.Plan = plan
		}
		emit(out, res)
	}

	if p := os.Getenv("VERIF_PLAN"); p != "" {
		b, err := os.ReadFile(p)
		if err != nil {
			t.Fatalf("VERIF_PLAN: %v", err)
		}
		var rf struct {
			Seed uint64          `json:"seed"`
			Plan json.RawMessage `json:"plan"`
		}
		if err := json.Unmarshal(b, &rf); err != nil {
			t.Fatalf("VERIF_PLAN: %v", err)
		}
		plan := c.NewPlan()
		if err := json.Unmarshal(rf.Plan, plan); err != nil {
			t.Fatalf("VERIF_PLAN plan: %v", err)
		}
		runOne(rf.Seed, plan, false)
		return
	}

	first, count := uint64(1), 1
	if s := os.Getenv("VERIF_SEEDS"); s != "" {
		parts := strings.SplitN(s, ":", 2)
		f, err := strconv.ParseUint(parts[0], 10, 64)
		if err != nil {
			t.Fatalf("VERIF_SEEDS: %v", err)
		}
		first = f
		if len(parts) == 2 {
			count, _ = strconv.Atoi(parts[1])
		}
	}
	for i := 0; i < count; i++ {
		seed := first + uint64(i)
		plan := c.Gen(seed, tier)
		runOne(seed, plan, i < keep)
	}
}

// Bubble runs f inside a synctest bubble and swallows the end-of-bubble
// "deadlock" panic that synctest raises when goroutines of the code under test
// are still parked after f returned (verdicts are computed before teardown).
// It reports whether the bubble drained cleanly.
func Bubble(t *testing.T, f func()) (clean bool) {
	clean = true
	defer func() {
		if r := recover(); r != nil {
			s := fmt.Sprint(r)
			if strings.Contains(s, "deadlock") {
				clean = false
				return
			}
			panic(r)
		}
	}()
	synctest.Test(t, func(t *testing.T) { f() })
	return clean
}

// SleepUntil sleeps (fake clock) until world time d.
func (w *World) SleepUntil(d time.Duration) {
	if dd := d - w.Now(); dd > 0 {
		time.Sleep(dd)
	}
}

// Quiesce waits until every goroutine in the bubble is durably blocked at the
// current instant.
func Quiesce() { synctest.Wait() }

// Goroutines returns the number of goroutines whose stack mentions substr.
func Goroutines(substr string) int {
	buf := make([]byte, 1<<22)
	n := runtime.Stack(buf, true)
	cnt := 0
	for _, g := range strings.Split(string(buf[:n]), "\n\n") {
		if strings.Contains(g, substr) {
			cnt++
		}
	}
	return cnt
}

// SortedKeys returns the sorted keys of a map with string keys.
func SortedKeys[V any](m map[string]V) []string {
	ks := make([]string, 0, len(m))
	for k := range m {
		ks = append(ks, k)
	}
	sort.Strings(ks)
	return ks
}
