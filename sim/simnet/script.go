package simnet

import (
	"encoding/json"
	"fmt"
	"sync"
	"time"
)

// ScriptPeer is a backend peer that is not a Netceptor but a script: it speaks
// the wire protocol by hand, so it can forge, replay and mangle messages.
type ScriptPeer struct {
	W      *World
	Name   string
	Target string // node it is attached to
	Cost   float64
	Link   *Link
	Sess   *Session
	Epoch  uint64
	Seq    uint64
	idN    int

	mu    sync.Mutex
	inbox [][]byte
	stop  chan struct{}
}

// NewScriptPeer wraps the far end of a scripted datagram link.
func NewScriptPeer(w *World, name, target string, cost float64, l *Link, s *Session) *ScriptPeer {
	sp := &ScriptPeer{W: w, Name: name, Target: target, Cost: cost, Link: l, Sess: s,
		Epoch: uint64(time.Now().Unix()) << 24, stop: make(chan struct{})}
	go sp.reader()
	return sp
}

func (sp *ScriptPeer) reader() {
	for {
		m, err := sp.Sess.Recv(time.Hour)
		if err != nil {
			if err.Error() == "i/o timeout" {
				continue
			}
			return
		}
		sp.mu.Lock()
		sp.inbox = append(sp.inbox, m)
		sp.mu.Unlock()
	}
}

// Inbox returns everything the node has sent to the script so far.
func (sp *ScriptPeer) Inbox() [][]byte {
	sp.mu.Lock()
	defer sp.mu.Unlock()
	return append([][]byte(nil), sp.inbox...)
}

// NextID returns a fresh, deterministic 8-character update ID.
func (sp *ScriptPeer) NextID() string {
	sp.idN++
	return fmt.Sprintf("%s%06d", sp.Name[:min(2, len(sp.Name))], sp.idN)[:8]
}

// Own builds the script's own routing update (listing the target as neighbour).
func (sp *ScriptPeer) Own(extra map[string]float64) *RoutingUpdate {
	sp.Seq++
	conns := map[string]float64{sp.Target: sp.Cost}
	for k, v := range extra {
		conns[k] = v
	}
	return &RoutingUpdate{NodeID: sp.Name, UpdateID: sp.NextID(), UpdateEpoch: sp.Epoch, UpdateSequence: sp.Seq,
		Connections: conns, ForwardingNode: sp.Name}
}

// SendRoute sends a routing update as the script wrote it.
func (sp *ScriptPeer) SendRoute(ru *RoutingUpdate) error {
	b, _ := json.Marshal(ru)
	return sp.Sess.Send(append([]byte{MsgRoute}, b...))
}

// SendRaw sends arbitrary bytes.
func (sp *ScriptPeer) SendRaw(b []byte) error { return sp.Sess.Send(b) }

// Handshake announces the script and waits (fake time) for the node to establish.
func (sp *ScriptPeer) Handshake() {
	_ = sp.SendRoute(sp.Own(nil))
	time.Sleep(2*sp.Link.Cfg.Latency + 300*time.Millisecond)
}

// Keepalive re-announces the script periodically so the idle timer never fires.
func (sp *ScriptPeer) Keepalive(period time.Duration, extra func() map[string]float64) {
	go func() {
		for {
			select {
			case <-sp.stop:
				return
			case <-time.After(period):
			}
			var ex map[string]float64
			if extra != nil {
				ex = extra()
			}
			if sp.SendRoute(sp.Own(ex)) != nil {
				return
			}
		}
	}()
}

func (sp *ScriptPeer) Stop() {
	select {
	case <-sp.stop:
	default:
		close(sp.stop)
	}
}

// DataPacket builds a type-0 packet.  Name hashes are highwayhash-64 with an
// all-zero key over the node name (documented wire format).
func DataPacket(hops byte, fromNode, toNode, fromSvc, toSvc string, payload []byte) []byte {
	b := make([]byte, 36+len(payload))
	b[0] = MsgData
	b[1] = hops
	putU64(b[4:12], NameHash(fromNode))
	putU64(b[12:20], NameHash(toNode))
	copy(b[20:28], fromSvc)
	copy(b[28:36], toSvc)
	copy(b[36:], payload)
	return b
}

func putU64(b []byte, v uint64) {
	for i := 0; i < 8; i++ {
		b[i] = byte(v >> (56 - 8*i))
	}
}
