package simnet

import (
	"context"
	"crypto/sha256"
	"encoding/hex"
	"encoding/json"
	"fmt"
	"io"
	"os"
	"sort"
	"strings"
	"sync"
	"time"

	"github.com/ansible/receptor/pkg/netceptor"
)

// Message type bytes of the netceptor wire protocol (documented protocol
// constants, not implementation details).
const (
	MsgData   = 0
	MsgRoute  = 1
	MsgAd     = 2
	MsgReject = 3
)

// RoutingUpdate mirrors the JSON body of a type-1 message.
type RoutingUpdate struct {
	NodeID             string
	UpdateID           string
	UpdateEpoch        uint64
	UpdateSequence     uint64
	Connections        map[string]float64
	ForwardingNode     string
	SuspectedDuplicate uint64
}

// ServiceAd mirrors the JSON body of a type-2 message.
type ServiceAd struct {
	NodeID       string
	Service      string
	Time         time.Time
	ConnType     byte
	Tags         map[string]string
	WorkCommands []netceptor.WorkCommand
	Cancel       bool
}

// WireRec is one datagram handed to a link by a sender.
type WireRec struct {
	At     time.Duration // since world start
	Seq    int64         // global order of Send calls (diagnostic only; not part of the canonical log)
	Link   string
	Gen    int
	From   string // sending end's name (node ID or script name)
	To     string
	Type   int // first byte, -1 for empty datagram
	Len    int
	Fate   string // "deliver", "drop", "dup", "silent", "cut"
	Hops   int    // data packets: TTL byte
	Route  *RoutingUpdate
	Ad     *ServiceAd
	Raw    []byte // kept for control messages, and for data when World.KeepPayload
	DataTo string // data packets: ToService (fixed 8 bytes, trimmed)
	// Delivered holds the world times at which the message was handed to the
	// receiving end (0, 1 or 2 entries).
	Delivered []time.Duration
}

func (w *World) delivered(r *WireRec) {
	if r == nil {
		return
	}
	w.mu.Lock()
	r.Delivered = append(r.Delivered, w.Now())
	w.mu.Unlock()
}

// DeliveredAt returns a copy of the delivery times of r.
func (w *World) DeliveredAt(r *WireRec) []time.Duration {
	w.mu.Lock()
	defer w.mu.Unlock()
	return append([]time.Duration(nil), r.Delivered...)
}

// World owns every link and the wire record of one run.
type World struct {
	Seed        uint64
	T0          time.Time
	KeepPayload bool
	MsgBudget   int64

	mu        sync.Mutex
	wire      []*WireRec
	seq       int64
	stats     map[string]int64
	events    []string
	links     map[string]*Link
	overBudge bool
	taps      []func(*WireRec)
}

func NewWorld(seed uint64) *World {
	return &World{
		Seed:      seed,
		T0:        time.Now(),
		MsgBudget: 200000,
		stats:     map[string]int64{},
		links:     map[string]*Link{},
	}
}

func (w *World) Now() time.Duration { return time.Since(w.T0) }

// Count bumps a named counter (fault kinds fired, probes hit).
func (w *World) Count(name string, d int64) {
	w.mu.Lock()
	w.stats[name] += d
	w.mu.Unlock()
}

func (w *World) Stats() map[string]int64 {
	w.mu.Lock()
	defer w.mu.Unlock()
	m := make(map[string]int64, len(w.stats))
	for k, v := range w.stats {
		m[k] = v
	}
	return m
}

// Event appends a line to the canonical event log.  It never draws
// randomness and never reads a real clock.
func (w *World) Event(format string, a ...any) {
	s := fmt.Sprintf("%012d %s", int64(w.Now()), fmt.Sprintf(format, a...))
	w.mu.Lock()
	w.events = append(w.events, s)
	w.mu.Unlock()
}

// AddTap registers a monitor called for every wire record (under the world lock
// released; taps must be quick and must not call back into Send).
func (w *World) AddTap(f func(*WireRec)) {
	w.mu.Lock()
	w.taps = append(w.taps, f)
	w.mu.Unlock()
}

func (w *World) OverBudget() bool {
	w.mu.Lock()
	defer w.mu.Unlock()
	return w.overBudge
}

// Wire returns a snapshot of the wire record.
func (w *World) Wire() []*WireRec {
	w.mu.Lock()
	defer w.mu.Unlock()
	out := make([]*WireRec, len(w.wire))
	copy(out, w.wire)
	return out
}

func (w *World) WireLen() int {
	w.mu.Lock()
	defer w.mu.Unlock()
	return len(w.wire)
}

// CanonicalLogHash hashes the event log and the wire record, sorted by
// (timestamp, text).  Random identifiers (update IDs, epoch low bits) are left
// out of the text, so two runs of one seed produce one hash.
func (w *World) CanonicalLogHash() (string, int) {
	w.mu.Lock()
	lines := make([]string, 0, len(w.events)+len(w.wire))
	lines = append(lines, w.events...)
	for _, r := range w.wire {
		lines = append(lines, fmt.Sprintf("%012d wire %s", int64(r.At), r.canon()))
	}
	w.mu.Unlock()
	sort.Strings(lines)
	if f := os.Getenv("VERIF_DUMPLOG"); f != "" { // determinism debugging: keep the text that is hashed
		_ = os.WriteFile(f, []byte(strings.Join(lines, "\n")+"\n"), 0o600)
	}
	h := sha256.New()
	for _, l := range lines {
		_, _ = io.WriteString(h, l)
		_, _ = h.Write([]byte{'\n'})
	}
	return hex.EncodeToString(h.Sum(nil))[:16], len(lines)
}

// CanonicalLog returns the sorted log lines (for diffing in the determinism self-test).
func (w *World) CanonicalLog() []string {
	w.mu.Lock()
	lines := make([]string, 0, len(w.events)+len(w.wire))
	lines = append(lines, w.events...)
	for _, r := range w.wire {
		lines = append(lines, fmt.Sprintf("%012d wire %s", int64(r.At), r.canon()))
	}
	w.mu.Unlock()
	sort.Strings(lines)
	return lines
}

func (r *WireRec) canon() string {
	s := fmt.Sprintf("%s#%d %s>%s t=%d len=%d %s", r.Link, r.Gen, r.From, r.To, r.Type, r.canonLen(), r.Fate)
	if r.Route != nil {
		conns := make([]string, 0, len(r.Route.Connections))
		for k, v := range r.Route.Connections {
			conns = append(conns, fmt.Sprintf("%s=%v", k, v))
		}
		sort.Strings(conns)
		s += fmt.Sprintf(" route origin=%s ep=%d seq=%d fwd=%s dup=%v conns=%v", r.Route.NodeID,
			r.Route.UpdateEpoch>>24, r.Route.UpdateSequence, r.Route.ForwardingNode, r.Route.SuspectedDuplicate != 0, conns)
	}
	if r.Ad != nil {
		s += fmt.Sprintf(" ad %s/%s cancel=%v t=%d", r.Ad.NodeID, r.Ad.Service, r.Ad.Cancel, r.Ad.Time.UnixNano())
	}
	if r.Type == MsgData {
		to := r.DataTo
		if len(to) == 8 && to != "abcdefgh" {
			to = "<8 chars>" // ephemeral service names are random
		}
		s += fmt.Sprintf(" hops=%d to=%q", r.Hops, to)
	}
	return s
}

// Lengths of JSON control messages vary with random IDs only in content, not
// in size (fixed-length IDs), so Len is canonical.
func (r *WireRec) canonLen() int {
	if r.Type == MsgRoute {
		return 0 // epoch digits may vary
	}
	return r.Len
}

func (w *World) record(l *Link, gen int, from, to string, data []byte, fate string) *WireRec {
	return w.recordAt(w.Now(), l, gen, from, to, data, fate)
}

func (w *World) recordAt(at time.Duration, l *Link, gen int, from, to string, data []byte, fate string) *WireRec {
	r := &WireRec{At: at, Link: l.Name, Gen: gen, From: from, To: to, Type: -1, Len: len(data), Fate: fate}
	if len(data) > 0 {
		r.Type = int(data[0])
		switch data[0] {
		case MsgRoute:
			ru := &RoutingUpdate{}
			if json.Unmarshal(data[1:], ru) == nil {
				r.Route = ru
			}
			r.Raw = append([]byte(nil), data...)
		case MsgAd:
			ad := &ServiceAd{}
			if json.Unmarshal(data[1:], ad) == nil {
				r.Ad = ad
			}
			r.Raw = append([]byte(nil), data...)
		case MsgData:
			if len(data) >= 36 {
				r.Hops = int(data[1])
				b := data[28:36]
				p := len(b)
				for p > 0 && b[p-1] == 0 {
					p--
				}
				r.DataTo = string(b[:p])
			}
			if w.KeepPayload {
				r.Raw = append([]byte(nil), data...)
			} else if len(data) >= 36 {
				r.Raw = append([]byte(nil), data[:36]...)
			}
		default:
			r.Raw = append([]byte(nil), data...)
		}
	}
	w.mu.Lock()
	w.seq++
	r.Seq = w.seq
	w.wire = append(w.wire, r)
	if int64(len(w.wire)) > w.MsgBudget {
		w.overBudge = true
	}
	w.stats["fate_"+fate]++
	taps := w.taps
	w.mu.Unlock()
	for _, t := range taps {
		t(r)
	}
	return r
}

// ---------------------------------------------------------------------------
// Links

// LinkCfg describes one link.  Rates apply per message per direction.
type LinkCfg struct {
	Name    string
	Latency time.Duration // base one-way delay (must be > 0)
	Jitter  time.Duration // extra delay in [0,Jitter); with FIFO false this reorders
	FIFO    bool          // deliver in order (every stream backend does)
	Framed  bool          // run the real length-prefix framer over a simulated byte stream
	Drop    float64
	Dup     float64
	// AdJitter delays every service-advertisement message by an extra hash-determined time in [0,AdJitter) and
	// exempts it from FIFO order: advertisements and withdrawals overtake each other (and everything else) while
	// the routing traffic that keeps the session alive stays in order.
	AdJitter time.Duration
}

// Link is a bidirectional connection between two ends.  Each (re)connection is
// a new generation with a fresh pair of sessions.
type Link struct {
	w    *World
	Cfg  LinkCfg
	Name string
	Ends [2]string // names of the two ends

	mu     sync.Mutex
	gen    int
	sess   [2]endpoint // current generation's ends (nil when down)
	silent [2]bool     // silent[i]: messages sent by end i are swallowed
	extra  time.Duration
	held   bool // datagram links: everything handed over is kept until Release (a stalled path that later delivers)
	heldQ  []heldMsg
}

type heldMsg struct {
	s    *Session
	data []byte
	rec  *WireRec
}

type endpoint interface {
	sever()
	isOpen() bool
}

// Up reports whether both ends of the current generation are open.
func (l *Link) Up() bool {
	l.mu.Lock()
	defer l.mu.Unlock()
	return l.sess[0] != nil && l.sess[1] != nil && l.sess[0].isOpen() && l.sess[1].isOpen()
}

// Silent reports whether either direction is currently swallowed.
func (l *Link) Silent() bool {
	l.mu.Lock()
	defer l.mu.Unlock()
	return l.silent[0] || l.silent[1]
}

// SetSilent makes the link carry nothing from end i (the session stays open).
func (l *Link) SetSilent(dir0, dir1 bool) {
	l.mu.Lock()
	l.silent[0], l.silent[1] = dir0, dir1
	l.mu.Unlock()
	l.w.Count("fault_silent", 1)
	l.w.Event("link %s silent %v %v", l.Name, dir0, dir1)
}

// Hold makes a datagram link keep everything that is handed to it from now on, in both directions, without losing
// or reordering it (a path that stalls).  Release lets it all through, in order, one link latency later.
func (l *Link) Hold() {
	l.mu.Lock()
	l.held = true
	l.mu.Unlock()
	l.w.Count("fault_hold", 1)
	l.w.Event("link %s holds its traffic", l.Name)
}

// Release ends a Hold.
func (l *Link) Release() {
	l.mu.Lock()
	q := l.heldQ
	l.heldQ, l.held = nil, false
	l.mu.Unlock()
	l.w.Event("link %s releases %d held messages", l.Name, len(q))
	now := l.w.Now()
	for _, h := range q {
		if h.s.gen == l.curGen() {
			h.s.scheduleFrom(now, h.data, l.Cfg.Latency, h.rec)
		}
	}
}

func (l *Link) hold(s *Session, data []byte, rec *WireRec) bool {
	l.mu.Lock()
	defer l.mu.Unlock()
	if !l.held {
		return false
	}
	l.heldQ = append(l.heldQ, heldMsg{s, data, rec})
	return true
}

// SetExtraDelay adds a delay to every later message (delay-change fault).
func (l *Link) SetExtraDelay(d time.Duration) {
	l.mu.Lock()
	l.extra = d
	l.mu.Unlock()
	l.w.Count("fault_delay_change", 1)
	l.w.Event("link %s extra delay %d", l.Name, int64(d))
}

// Calm stops loss, duplication and reordering on the link ("faults stop").
func (l *Link) Calm() {
	l.mu.Lock()
	l.Cfg.Drop, l.Cfg.Dup, l.Cfg.Jitter = 0, 0, 0
	l.Cfg.FIFO = true
	l.mu.Unlock()
}

// Cut severs the current generation: both ends see EOF/errors, in-flight
// messages are lost.
func (l *Link) Cut() {
	l.mu.Lock()
	s0, s1 := l.sess[0], l.sess[1]
	l.sess[0], l.sess[1] = nil, nil
	l.mu.Unlock()
	if s0 != nil {
		s0.sever()
	}
	if s1 != nil {
		s1.sever()
	}
	l.w.Count("fault_cut", 1)
	l.w.Event("link %s cut", l.Name)
}

func (l *Link) fifo() bool {
	l.mu.Lock()
	defer l.mu.Unlock()
	return l.Cfg.FIFO
}

func (l *Link) curGen() int {
	l.mu.Lock()
	defer l.mu.Unlock()
	return l.gen
}

// fateOf decides what happens to the n-th message sent by side on generation gen.
func (l *Link) fateOf(gen, side, n int) (fate string, delay time.Duration, dupDelay time.Duration) {
	l.mu.Lock()
	silent := l.silent[side]
	extra := l.extra
	cfg := l.Cfg
	l.mu.Unlock()
	if silent {
		return "silent", 0, 0
	}
	h := H(l.w.Seed, "fate", l.Name, gen, side, n)
	u := Unit(h)
	delay = cfg.Latency + extra
	if cfg.Jitter > 0 {
		delay += time.Duration(H(l.w.Seed, "jit", l.Name, gen, side, n) % uint64(cfg.Jitter))
	}
	switch {
	case u < cfg.Drop:
		return "drop", 0, 0
	case u < cfg.Drop+cfg.Dup:
		dd := delay + cfg.Latency/2 + time.Duration(H(l.w.Seed, "dupd", l.Name, gen, side, n)%uint64(cfg.Latency+cfg.Jitter+1))
		return "dup", delay, dd
	}
	return "deliver", delay, 0
}

// ---------------------------------------------------------------------------
// Datagram session (implements netceptor.BackendSession)

// Session is one end of a datagram link generation.
type Session struct {
	w    *World
	l    *Link
	gen  int
	side int
	peer *Session
	name string

	mu       sync.Mutex
	q        [][]byte
	eof      bool
	closed   bool
	severed  bool
	notify   chan struct{}
	sendWake chan struct{} // wakes a Send parked by BlockPeerSend when the session ends (never shared with Recv: a wake-up taken by the wrong waiter is a lost message)
	sendN    int
	lastAt   time.Duration
	batch    []sendItem    // messages handed over at the current instant, not yet put on the wire (see flush)
	blocked  chan struct{} // non-nil: Send waits until it is closed (back-pressure from a peer that does not read)
}

// BlockPeerSend makes the Send calls of the other end block (a peer that has stopped reading, so the
// sender's socket buffer is full) until it is called again with false.
func (s *Session) BlockPeerSend(block bool) {
	p := s.peer
	p.mu.Lock()
	defer p.mu.Unlock()
	if block && p.blocked == nil {
		p.blocked = make(chan struct{})
		s.w.Count("fault_send_blocked", 1)
	} else if !block && p.blocked != nil {
		close(p.blocked)
		p.blocked = nil
	}
}

func (s *Session) isOpen() bool {
	s.mu.Lock()
	defer s.mu.Unlock()
	return !s.closed && !s.severed && !s.eof
}

func (s *Session) sever() {
	s.mu.Lock()
	s.severed = true
	s.q = nil
	s.mu.Unlock()
	s.wake()
}

func (s *Session) wake() {
	select {
	case s.notify <- struct{}{}:
	default:
	}
	select {
	case s.sendWake <- struct{}{}:
	default:
	}
}

func (s *Session) push(data []byte, eof bool, rec *WireRec) {
	s.mu.Lock()
	if s.closed || s.severed {
		s.mu.Unlock()
		return
	}
	if !eof {
		s.w.delivered(rec)
	}
	if eof {
		s.eof = true
	} else {
		s.q = append(s.q, data)
	}
	s.mu.Unlock()
	s.wake()
}

// sendItem is one message waiting for the end of the instant it was sent in.
type sendItem struct {
	data []byte
	at   time.Duration
}

// tieKey is the canonical identity of a message for ordering messages that were handed to one link in
// one instant: the same fields the canonical log shows (random identifiers left out).
func tieKey(data []byte) string {
	if len(data) == 0 {
		return ""
	}
	switch data[0] {
	case MsgRoute:
		ru := &RoutingUpdate{}
		if json.Unmarshal(data[1:], ru) == nil {
			conns := make([]string, 0, len(ru.Connections))
			for k, v := range ru.Connections {
				conns = append(conns, fmt.Sprintf("%s=%v", k, v))
			}
			sort.Strings(conns)
			return fmt.Sprintf("1 %s %d %d %s %v %v", ru.NodeID, ru.UpdateEpoch>>24, ru.UpdateSequence, ru.ForwardingNode, ru.SuspectedDuplicate != 0, conns)
		}
	case MsgAd:
		ad := &ServiceAd{}
		if json.Unmarshal(data[1:], ad) == nil {
			return fmt.Sprintf("2 %s %s %v %d", ad.NodeID, ad.Service, ad.Cancel, ad.Time.UnixNano())
		}
	case MsgData:
		if len(data) >= 2 {
			return fmt.Sprintf("0 %d %d", data[1], len(data))
		}
	}
	return fmt.Sprintf("%d %d", data[0], len(data))
}

// Send implements BackendSession.  Messages handed over by different goroutines of a node in one instant
// of simulated time have no order the simulator decides (the Go scheduler picks it), so they are collected
// until the instant is over - the flush timer fires only once every goroutine of the bubble is idle - and put
// on the wire in canonical order.  Messages handed over by one goroutine keep their order unless the canonical
// key says otherwise, which for the single writer goroutine of a connection is the same thing seen from the
// receiver: one instant, one batch.
func (s *Session) Send(data []byte) error {
	s.mu.Lock()
	for s.blocked != nil && !s.closed && !s.severed {
		ch := s.blocked
		s.mu.Unlock()
		select {
		case <-ch:
		case <-s.sendWake:
		}
		s.mu.Lock()
	}
	if s.closed || s.severed {
		s.mu.Unlock()
		return fmt.Errorf("session closed")
	}
	if s.w.OverBudget() {
		// the run has blown its message budget (a flood that does not terminate):
		// swallow everything so the run can end and report it
		s.mu.Unlock()
		s.w.Count("fate_budget", 1)
		return nil
	}
	s.batch = append(s.batch, sendItem{append([]byte(nil), data...), s.w.Now()})
	first := len(s.batch) == 1
	s.mu.Unlock()
	if first {
		time.AfterFunc(time.Nanosecond, s.flush)
	}
	return nil
}

// flush puts the messages of the finished instant on the wire.
func (s *Session) flush() {
	s.mu.Lock()
	batch := s.batch
	s.batch = nil
	gone := s.severed
	s.mu.Unlock()
	if gone || len(batch) == 0 {
		return
	}
	if len(batch) > 1 {
		keys := make([]string, len(batch))
		for i := range batch {
			keys[i] = tieKey(batch[i].data)
		}
		idx := make([]int, len(batch))
		for i := range idx {
			idx[i] = i
		}
		sort.SliceStable(idx, func(a, b int) bool {
			if batch[idx[a]].at != batch[idx[b]].at {
				return batch[idx[a]].at < batch[idx[b]].at
			}
			return keys[idx[a]] < keys[idx[b]]
		})
		sorted := make([]sendItem, len(batch))
		for i, j := range idx {
			sorted[i] = batch[j]
		}
		batch = sorted
		s.w.Count("same_instant_batches", 1)
	}
	for _, it := range batch {
		s.mu.Lock()
		n := s.sendN
		s.sendN++
		s.mu.Unlock()
		fate, delay, dupDelay := s.l.fateOf(s.gen, s.side, n)
		rec := s.w.recordAt(it.at, s.l, s.gen, s.name, s.peer.name, it.data, fate)
		switch fate {
		case "silent", "drop":
			continue
		}
		if s.l.hold(s, it.data, rec) {
			s.w.Count("fate_held", 1)
			continue
		}
		if s.l.Cfg.AdJitter > 0 && len(it.data) > 0 && it.data[0] == MsgAd {
			extra := time.Duration(H(s.w.Seed, "adjit", s.l.Name, s.gen, s.side, n) % uint64(s.l.Cfg.AdJitter))
			at := it.at + delay + extra
			now := s.w.Now()
			if at <= now {
				at = now + time.Nanosecond
			}
			peer, data := s.peer, it.data
			time.AfterFunc(at-now, func() { peer.push(data, false, rec) })
			continue
		}
		s.scheduleFrom(it.at, it.data, delay, rec)
		if fate == "dup" {
			s.scheduleFrom(it.at, append([]byte(nil), it.data...), dupDelay, rec)
		}
	}
}

func (s *Session) scheduleFrom(sent time.Duration, data []byte, delay time.Duration, rec *WireRec) {
	now := s.w.Now()
	at := sent + delay
	if at <= now {
		at = now + time.Nanosecond
	}
	s.mu.Lock()
	if s.l.fifo() && at <= s.lastAt {
		at = s.lastAt + time.Nanosecond
	}
	if at > s.lastAt {
		s.lastAt = at
	}
	s.mu.Unlock()
	peer := s.peer
	time.AfterFunc(at-now, func() { peer.push(data, false, rec) })
}

// Recv implements BackendSession.
func (s *Session) Recv(timeout time.Duration) ([]byte, error) {
	var timer *time.Timer
	for {
		s.mu.Lock()
		if s.severed {
			s.mu.Unlock()
			return nil, io.EOF
		}
		if s.closed {
			s.mu.Unlock()
			return nil, fmt.Errorf("session closed")
		}
		if len(s.q) > 0 {
			m := s.q[0]
			s.q = s.q[1:]
			s.mu.Unlock()
			if timer != nil {
				timer.Stop()
			}
			return m, nil
		}
		if s.eof {
			s.mu.Unlock()
			return nil, io.EOF
		}
		s.mu.Unlock()
		if timer == nil {
			timer = time.NewTimer(timeout)
		}
		select {
		case <-s.notify:
		case <-timer.C:
			return nil, netceptor.ErrTimeout
		}
	}
}

// Close implements BackendSession: the peer sees EOF after what is in flight.
func (s *Session) Close() error {
	s.mu.Lock()
	if s.closed {
		s.mu.Unlock()
		return nil
	}
	s.closed = true
	sev := s.severed
	s.q = nil
	s.mu.Unlock()
	s.flush() // what was sent before the close is in flight
	s.wake()
	if !sev {
		s.w.Event("link %s#%d closed by %s", s.l.Name, s.gen, s.name)
		now := s.w.Now()
		at := now + s.l.Cfg.Latency
		s.mu.Lock()
		if at <= s.lastAt {
			at = s.lastAt + time.Nanosecond
		}
		s.lastAt = at
		s.mu.Unlock()
		peer := s.peer
		time.AfterFunc(at-now, func() { peer.push(nil, true, nil) })
	}
	return nil
}

// Pending returns the number of messages waiting to be received (scripted peers).
func (s *Session) Pending() int {
	s.mu.Lock()
	defer s.mu.Unlock()
	return len(s.q)
}

// Backend is a netceptor.Backend whose sessions are pushed by the simulator.
type Backend struct {
	ch chan netceptor.BackendSession
}

func NewBackend() *Backend {
	return &Backend{ch: make(chan netceptor.BackendSession, 8)}
}

func (b *Backend) Start(ctx context.Context, _ *sync.WaitGroup) (chan netceptor.BackendSession, error) {
	return b.ch, nil
}

// Push hands a new session to the node.
func (b *Backend) Push(s netceptor.BackendSession) { b.ch <- s }

// NewLink creates a link object (down until Connect is called).
func (w *World) NewLink(cfg LinkCfg, endA, endB string) *Link {
	if cfg.Latency <= 0 {
		panic("links must have non-zero latency")
	}
	l := &Link{w: w, Cfg: cfg, Name: cfg.Name, Ends: [2]string{endA, endB}}
	w.mu.Lock()
	w.links[cfg.Name] = l
	w.mu.Unlock()
	return l
}

// ConnectDatagram brings up a new generation and returns its two datagram sessions.
func (l *Link) ConnectDatagram() (*Session, *Session) {
	l.mu.Lock()
	l.gen++
	g := l.gen
	a := &Session{w: l.w, l: l, gen: g, side: 0, name: l.Ends[0], notify: make(chan struct{}, 1), sendWake: make(chan struct{}, 1)}
	b := &Session{w: l.w, l: l, gen: g, side: 1, name: l.Ends[1], notify: make(chan struct{}, 1), sendWake: make(chan struct{}, 1)}
	a.peer, b.peer = b, a
	l.sess[0], l.sess[1] = a, b
	l.mu.Unlock()
	l.w.Event("link %s up gen %d", l.Name, g)
	return a, b
}
