package simnet

import (
	"context"
	"fmt"
	"sort"
	"sync"
	"time"

	"github.com/ansible/receptor/pkg/netceptor"
)

// Knobs are the operational constants of a node, drawn per run (swarm style).
type Knobs struct {
	MTU         int
	RouteUpdate time.Duration
	ServiceAd   time.Duration
	SeenExpire  time.Duration
	MaxHops     int
	MaxIdle     time.Duration
}

func DefaultKnobs() Knobs {
	return Knobs{MTU: 16384, RouteUpdate: 10 * time.Second, ServiceAd: 60 * time.Second,
		SeenExpire: time.Hour, MaxHops: 30, MaxIdle: 21 * time.Second}
}

// Node is one simulated receptor node (one incarnation of it at a time).
type Node struct {
	W     *World
	ID    string
	Knobs Knobs

	mu     sync.Mutex
	N      *netceptor.Netceptor
	cancel context.CancelFunc
	inc    int
	up     bool
	ends   []*nodeEnd
}

type nodeEnd struct {
	link    *Link
	side    int
	cost    float64
	mods    []func(*netceptor.BackendInfo)
	backend *Backend
	ext     *netceptor.ExternalBackend
	inc     int
}

// Mesh is a set of nodes and links in one world.
type Mesh struct {
	W     *World
	Nodes map[string]*Node
	Links map[string]*Link
	order []string
}

func NewMesh(w *World) *Mesh {
	return &Mesh{W: w, Nodes: map[string]*Node{}, Links: map[string]*Link{}}
}

func (m *Mesh) NodeIDs() []string {
	out := append([]string(nil), m.order...)
	return out
}

// AddNode creates and starts a node.
func (m *Mesh) AddNode(id string, k Knobs) *Node {
	n := &Node{W: m.W, ID: id, Knobs: k}
	m.Nodes[id] = n
	m.order = append(m.order, id)
	n.Start()
	return n
}

// Start creates a new incarnation of the node (new epoch).
func (n *Node) Start() {
	n.mu.Lock()
	if n.up {
		n.mu.Unlock()
		return
	}
	ctx, cancel := context.WithCancel(context.Background())
	n.N = netceptor.NewWithConsts(ctx, n.ID, n.Knobs.MTU, n.Knobs.RouteUpdate, n.Knobs.ServiceAd,
		n.Knobs.SeenExpire, byte(n.Knobs.MaxHops), n.Knobs.MaxIdle)
	n.cancel = cancel
	n.inc++
	n.up = true
	n.W.Event("node %s start inc %d", n.ID, n.inc)
	n.mu.Unlock()
	// the node's background goroutines reach their first wait before anything is asked of it (a nudge sent to a
	// tick runner that has not started listening is dropped), and no two nodes share their timer instants
	time.Sleep(time.Duration(3+H(n.W.Seed, "node-start", n.ID)%97) * time.Microsecond)
}

// Stop shuts the node down; its sessions are closed by the protocol goroutines.
func (n *Node) Stop() {
	n.mu.Lock()
	if !n.up {
		n.mu.Unlock()
		return
	}
	n.up = false
	c := n.cancel
	nc := n.N
	n.mu.Unlock()
	nc.Shutdown()
	c()
	n.W.Count("fault_node_stop", 1)
	n.W.Event("node %s stop", n.ID)
}

func (n *Node) Up() bool {
	n.mu.Lock()
	defer n.mu.Unlock()
	return n.up
}

// Net returns the current incarnation's Netceptor.
func (n *Node) Net() *netceptor.Netceptor {
	n.mu.Lock()
	defer n.mu.Unlock()
	return n.N
}

func (n *Node) endFor(l *Link, side int, cost float64, mods []func(*netceptor.BackendInfo)) *nodeEnd {
	n.mu.Lock()
	defer n.mu.Unlock()
	for _, e := range n.ends {
		if e.link == l && e.side == side {
			if e.inc != n.inc {
				// new incarnation: backends must be re-added
				e.backend, e.ext = nil, nil
				e.inc = n.inc
			}
			return e
		}
	}
	e := &nodeEnd{link: l, side: side, cost: cost, mods: mods, inc: n.inc}
	n.ends = append(n.ends, e)
	return e
}

// AddLink declares a link between two nodes with the connection cost each side
// configures (they must agree for the link to establish) and optional extra
// backend modifiers per side.  The link is down until Up is called.
func (m *Mesh) AddLink(cfg LinkCfg, a, b string, cost float64) *Link {
	l := m.W.NewLink(cfg, a, b)
	m.Links[cfg.Name] = l
	m.Nodes[a].endFor(l, 0, cost, nil)
	m.Nodes[b].endFor(l, 1, cost, nil)
	return l
}

// SetEndMods sets the backend modifiers used by one end of a link (before Up).
func (m *Mesh) SetEndMods(l *Link, side int, cost float64, mods ...func(*netceptor.BackendInfo)) {
	n := m.Nodes[l.Ends[side]]
	e := n.endFor(l, side, cost, nil)
	n.mu.Lock()
	e.cost = cost
	e.mods = mods
	e.backend, e.ext = nil, nil
	n.mu.Unlock()
}

// Up brings up a new generation of the link between its two (running) nodes.
func (m *Mesh) Up(l *Link) error {
	na, nb := m.Nodes[l.Ends[0]], m.Nodes[l.Ends[1]]
	if na == nil || nb == nil || !na.Up() || !nb.Up() {
		return fmt.Errorf("both ends must be running")
	}
	if l.Up() {
		return nil
	}
	// no two sessions of a node start in the same instant (their initial messages would draw sequence numbers
	// in an order the simulator does not decide)
	time.Sleep(time.Duration(1+H(m.W.Seed, "link-up", l.Name)%199) * time.Microsecond)
	ea := na.endFor(l, 0, 0, nil)
	eb := nb.endFor(l, 1, 0, nil)
	if l.Cfg.Framed {
		ca, cb := l.ConnectStream()
		if err := na.attachStream(ea, ca); err != nil {
			return err
		}
		return nb.attachStream(eb, cb)
	}
	sa, sb := l.ConnectDatagram()
	if err := na.attachDatagram(ea, sa); err != nil {
		return err
	}
	return nb.attachDatagram(eb, sb)
}

func (n *Node) mods(e *nodeEnd) []func(*netceptor.BackendInfo) {
	ms := []func(*netceptor.BackendInfo){netceptor.BackendConnectionCost(e.cost)}
	return append(ms, e.mods...)
}

func (n *Node) attachDatagram(e *nodeEnd, s *Session) error {
	n.mu.Lock()
	nc := n.N
	if e.backend == nil {
		e.backend = NewBackend()
		n.mu.Unlock()
		if err := nc.AddBackend(e.backend, n.mods(e)...); err != nil {
			return err
		}
	} else {
		n.mu.Unlock()
	}
	e.backend.Push(s)
	return nil
}

func (n *Node) attachStream(e *nodeEnd, c *Conn) error {
	n.mu.Lock()
	nc := n.N
	if e.ext == nil {
		ext, _ := netceptor.NewExternalBackend()
		e.ext = ext
		n.mu.Unlock()
		if err := nc.AddBackend(ext, n.mods(e)...); err != nil {
			return err
		}
	} else {
		n.mu.Unlock()
	}
	ext := e.ext
	c.CanonTies = true
	go ext.NewConnection(netceptor.MessageConnFromNetConn(c), true)
	return nil
}

// AttachScripted adds a backend to node n and returns the far end of a new
// datagram link whose other end is driven by the test (a scripted peer).
func (m *Mesh) AttachScripted(n *Node, cfg LinkCfg, scriptName string, cost float64, mods ...func(*netceptor.BackendInfo)) (*Link, *Session, error) {
	l := m.W.NewLink(cfg, n.ID, scriptName)
	m.Links[cfg.Name] = l
	e := n.endFor(l, 0, cost, mods)
	sa, sb := l.ConnectDatagram()
	if err := n.attachDatagram(e, sa); err != nil {
		return nil, nil, err
	}
	return l, sb, nil
}

// AttachScriptedStream is AttachScripted over a framed byte stream: the script
// writes raw bytes, so it can send malformed frames.
func (m *Mesh) AttachScriptedStream(n *Node, cfg LinkCfg, scriptName string, cost float64, mods ...func(*netceptor.BackendInfo)) (*Link, *Conn, error) {
	cfg.Framed = true
	l := m.W.NewLink(cfg, n.ID, scriptName)
	m.Links[cfg.Name] = l
	e := n.endFor(l, 0, cost, mods)
	ca, cb := l.ConnectStream()
	cb.RecordFrames = false
	if err := n.attachStream(e, ca); err != nil {
		return nil, nil, err
	}
	return l, cb, nil
}

// Reconnect gives a scripted peer a fresh session on an existing scripted link.
func (m *Mesh) ReconnectScripted(l *Link) (*Session, error) {
	n := m.Nodes[l.Ends[0]]
	e := n.endFor(l, 0, 0, nil)
	sa, sb := l.ConnectDatagram()
	if err := n.attachDatagram(e, sa); err != nil {
		return nil, err
	}
	return sb, nil
}

// ---------------------------------------------------------------------------
// Ground truth

// Graph is a weighted undirected graph over node IDs.
type Graph map[string]map[string]float64

// TrueGraph returns the real topology: links whose two nodes are up, whose
// sessions are open and which are not silent.
func (m *Mesh) TrueGraph() Graph {
	g := Graph{}
	for id, n := range m.Nodes {
		if n.Up() {
			g[id] = map[string]float64{}
		}
	}
	for _, l := range m.Links {
		a, b := l.Ends[0], l.Ends[1]
		na, nb := m.Nodes[a], m.Nodes[b]
		if na == nil || nb == nil || !na.Up() || !nb.Up() {
			continue
		}
		if !l.Up() || l.Silent() {
			continue
		}
		var cost float64
		na.mu.Lock()
		for _, e := range na.ends {
			if e.link == l {
				cost = e.cost
			}
		}
		na.mu.Unlock()
		g[a][b] = cost
		g[b][a] = cost
	}
	return g
}

// AllPairs is an independent Floyd–Warshall on g.
func (g Graph) AllPairs() map[string]map[string]float64 {
	ids := make([]string, 0, len(g))
	for id := range g {
		ids = append(ids, id)
	}
	sort.Strings(ids)
	const inf = 1e300
	d := map[string]map[string]float64{}
	for _, a := range ids {
		d[a] = map[string]float64{}
		for _, b := range ids {
			switch {
			case a == b:
				d[a][b] = 0
			default:
				if c, ok := g[a][b]; ok {
					d[a][b] = c
				} else {
					d[a][b] = inf
				}
			}
		}
	}
	for _, k := range ids {
		for _, i := range ids {
			for _, j := range ids {
				if d[i][k]+d[k][j] < d[i][j] {
					d[i][j] = d[i][k] + d[k][j]
				}
			}
		}
	}
	for _, a := range ids {
		for _, b := range ids {
			if d[a][b] >= inf {
				delete(d[a], b)
			}
		}
	}
	return d
}

// HopDist returns the number of links on the route from a to b following the
// nodes' own routing tables (or -1).
func (m *Mesh) RoutePath(a, b string) []string {
	path := []string{a}
	cur := a
	seen := map[string]bool{a: true}
	for cur != b {
		n := m.Nodes[cur]
		if n == nil || !n.Up() {
			return nil
		}
		nh, ok := n.Net().Status().RoutingTable[b]
		if !ok || seen[nh] {
			return nil
		}
		seen[nh] = true
		path = append(path, nh)
		cur = nh
	}
	return path
}

// ReconnectScriptedStream gives a scripted peer a fresh byte stream on an existing scripted framed link.
func (m *Mesh) ReconnectScriptedStream(l *Link) (*Conn, error) {
	n := m.Nodes[l.Ends[0]]
	e := n.endFor(l, 0, 0, nil)
	ca, cb := l.ConnectStream()
	cb.RecordFrames = false
	if err := n.attachStream(e, ca); err != nil {
		return nil, err
	}
	return cb, nil
}

// Frame wraps a message in the 2-byte little-endian length prefix of stream backends.
func Frame(b []byte) []byte {
	out := make([]byte, 2+len(b))
	out[0] = byte(len(b))
	out[1] = byte(len(b) >> 8)
	copy(out[2:], b)
	return out
}

// Drain reads and discards whatever arrives on a scripted stream end until it closes.
func (c *Conn) Drain() {
	go func() {
		buf := make([]byte, 65536)
		for {
			if _, err := c.Read(buf); err != nil {
				return
			}
		}
	}()
}

// Open reports whether the node side has not closed or severed this end's stream.
func (c *Conn) Open() bool { return c.isOpen() }

// Open reports whether the session is still usable.
func (s *Session) Open() bool { return s.isOpen() }
