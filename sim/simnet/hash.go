// Package simnet is the simulated network, clock helpers and plan/result
// plumbing shared by all checks.  Everything in here runs inside a
// testing/synctest bubble: the only clock is the bubble's fake clock, the only
// transport is the one defined in this package.
package simnet

import (
	"encoding/binary"
	"hash/fnv"
	"math"
)

// H is the single source of in-run decisions: a pure hash of the run's seed
// and the semantic identity of the thing being decided.  It is never a
// position in a shared random stream, so benign races in arrival order
// cannot shift later decisions.
func H(seed uint64, parts ...any) uint64 {
	h := fnv.New64a()
	var b [8]byte
	binary.LittleEndian.PutUint64(b[:], seed)
	_, _ = h.Write(b[:])
	for _, p := range parts {
		switch v := p.(type) {
		case string:
			_, _ = h.Write([]byte(v))
			_, _ = h.Write([]byte{0})
		case int:
			binary.LittleEndian.PutUint64(b[:], uint64(v))
			_, _ = h.Write(b[:])
		case int64:
			binary.LittleEndian.PutUint64(b[:], uint64(v))
			_, _ = h.Write(b[:])
		case uint64:
			binary.LittleEndian.PutUint64(b[:], v)
			_, _ = h.Write(b[:])
		case byte:
			_, _ = h.Write([]byte{v})
		case []byte:
			_, _ = h.Write(v)
			_, _ = h.Write([]byte{0})
		default:
			panic("simnet.H: unsupported part type")
		}
	}
	return mix(h.Sum64())
}

func mix(z uint64) uint64 {
	z += 0x9e3779b97f4a7c15
	z = (z ^ (z >> 30)) * 0xbf58476d1ce4e5b9
	z = (z ^ (z >> 27)) * 0x94d049bb133111eb
	return z ^ (z >> 31)
}

// Unit maps a hash to [0,1).
func Unit(h uint64) float64 {
	return float64(h>>11) / float64(uint64(1)<<53)
}

// Rng is a tiny splitmix64 stream used only for *plan generation* (before a
// run starts).  In-run decisions use H.
type Rng struct{ s uint64 }

func NewRng(seed uint64, domain string) *Rng {
	return &Rng{s: H(seed, "rng", domain)}
}

func (r *Rng) U64() uint64 {
	r.s += 0x9e3779b97f4a7c15
	z := r.s
	z = (z ^ (z >> 30)) * 0xbf58476d1ce4e5b9
	z = (z ^ (z >> 27)) * 0x94d049bb133111eb
	return z ^ (z >> 31)
}

// Intn returns a value in [0,n).
func (r *Rng) Intn(n int) int {
	if n <= 0 {
		return 0
	}
	return int(r.U64() % uint64(n))
}

// Range returns a value in [lo,hi].
func (r *Rng) Range(lo, hi int) int {
	if hi <= lo {
		return lo
	}
	return lo + r.Intn(hi-lo+1)
}

func (r *Rng) Float() float64 { return Unit(r.U64()) }

func (r *Rng) Bool(p float64) bool { return r.Float() < p }

func (r *Rng) Bytes(n int) []byte {
	b := make([]byte, n)
	for i := 0; i < n; i += 8 {
		v := r.U64()
		for j := 0; j < 8 && i+j < n; j++ {
			b[i+j] = byte(v >> (8 * j))
		}
	}
	return b
}

// Pick returns one element of a non-empty slice.
func Pick[T any](r *Rng, xs []T) T { return xs[r.Intn(len(xs))] }

// Shuffle permutes xs in place.
func Shuffle[T any](r *Rng, xs []T) {
	for i := len(xs) - 1; i > 0; i-- {
		j := r.Intn(i + 1)
		xs[i], xs[j] = xs[j], xs[i]
	}
}

// DyadicCost returns 1 + k*2^-20 style costs: exactly representable, and path
// sums of a handful of them are exact in float64, so shortest-path comparisons
// are exact.
func DyadicCost(base int, k int) float64 {
	return float64(base) + float64(k)*math.Ldexp(1, -20)
}
