package simnet

import "github.com/minio/highwayhash"

var zeroKey = make([]byte, 32)

// NameHash is the 64-bit node-name hash used in data packet headers.
func NameHash(name string) uint64 {
	h, _ := highwayhash.New64(zeroKey)
	_, _ = h.Write([]byte(name))
	return h.Sum64()
}
