// lockyield writes copies of the Go files of a package in which every statement of the form
// X.Lock() or X.RLock() is preceded by verifhook.Yield("lock", "<file>:<line>"), plus a build overlay
// that maps the original files to the copies.  Nothing else is changed; without a handler (and
// without the verif tag) the added calls are no-ops.  The checks are built with that overlay, so a
// simulator can hold a goroutine back, in real time, at the moment it is about to take a lock.
//
//	lockyield -src /repo/pkg/netceptor -out /scratch/ly -overlay /scratch/ly/overlay.json
package main

import (
	"bytes"
	"encoding/json"
	"flag"
	"fmt"
	"go/ast"
	"go/format"
	"go/parser"
	"go/token"
	"os"
	"path/filepath"
	"strconv"
	"strings"
)

const hookPath = "github.com/ansible/receptor/pkg/verifhook"

func isLockCall(s ast.Stmt) (string, bool) {
	es, ok := s.(*ast.ExprStmt)
	if !ok {
		return "", false
	}
	call, ok := es.X.(*ast.CallExpr)
	if !ok || len(call.Args) != 0 {
		return "", false
	}
	sel, ok := call.Fun.(*ast.SelectorExpr)
	if !ok {
		return "", false
	}
	if sel.Sel.Name != "Lock" && sel.Sel.Name != "RLock" {
		return "", false
	}
	return sel.Sel.Name, true
}

func yieldStmt(site string) ast.Stmt {
	return &ast.ExprStmt{X: &ast.CallExpr{
		Fun:  &ast.SelectorExpr{X: ast.NewIdent("verifhook"), Sel: ast.NewIdent("Yield")},
		Args: []ast.Expr{&ast.BasicLit{Kind: token.STRING, Value: strconv.Quote("lock")}, &ast.BasicLit{Kind: token.STRING, Value: strconv.Quote(site)}},
	}}
}

func rewriteList(fset *token.FileSet, base string, list []ast.Stmt, n *int) []ast.Stmt {
	out := make([]ast.Stmt, 0, len(list))
	for _, s := range list {
		if _, ok := isLockCall(s); ok {
			out = append(out, yieldStmt(fmt.Sprintf("%s:%d", base, fset.Position(s.Pos()).Line)))
			*n++
		}
		out = append(out, s)
	}
	return out
}

func main() {
	src := flag.String("src", "", "package directory")
	out := flag.String("out", "", "output directory")
	overlay := flag.String("overlay", "", "overlay file to write (merged if it exists)")
	flag.Parse()
	if *src == "" || *out == "" || *overlay == "" {
		flag.Usage()
		os.Exit(2)
	}
	if err := os.MkdirAll(*out, 0o755); err != nil {
		fmt.Fprintln(os.Stderr, err)
		os.Exit(2)
	}
	replace := map[string]string{}
	if b, err := os.ReadFile(*overlay); err == nil {
		var o struct{ Replace map[string]string }
		if json.Unmarshal(b, &o) == nil && o.Replace != nil {
			replace = o.Replace
		}
	}
	files, _ := filepath.Glob(filepath.Join(*src, "*.go"))
	total := 0
	for _, f := range files {
		if strings.HasSuffix(f, "_test.go") {
			continue
		}
		fset := token.NewFileSet()
		file, err := parser.ParseFile(fset, f, nil, parser.ParseComments)
		if err != nil {
			fmt.Fprintln(os.Stderr, "lockyield: skipping", f, err)
			continue
		}
		n := 0
		base := filepath.Base(f)
		for _, decl := range file.Decls {
			fd, ok := decl.(*ast.FuncDecl)
			if !ok || fd.Body == nil {
				continue
			}
			// site = file:function:line (methods as Type.Method)
			name := fd.Name.Name
			if fd.Recv != nil && len(fd.Recv.List) == 1 {
				t := fd.Recv.List[0].Type
				if st, ok := t.(*ast.StarExpr); ok {
					t = st.X
				}
				if id, ok := t.(*ast.Ident); ok {
					name = id.Name + "." + name
				}
			}
			site := base + ":" + name
			ast.Inspect(fd.Body, func(node ast.Node) bool {
				switch b := node.(type) {
				case *ast.BlockStmt:
					b.List = rewriteList(fset, site, b.List, &n)
				case *ast.CaseClause:
					b.Body = rewriteList(fset, site, b.Body, &n)
				case *ast.CommClause:
					b.Body = rewriteList(fset, site, b.Body, &n)
				}
				return true
			})
		}
		if n == 0 {
			continue
		}
		has := false
		for _, im := range file.Imports {
			if p, _ := strconv.Unquote(im.Path.Value); p == hookPath {
				has = true
			}
		}
		if !has {
			// a separate import declaration right after the package clause keeps every position of the original intact
			spec := &ast.ImportSpec{Path: &ast.BasicLit{Kind: token.STRING, Value: strconv.Quote(hookPath)}}
			decl := &ast.GenDecl{Tok: token.IMPORT, Specs: []ast.Spec{spec}}
			file.Decls = append([]ast.Decl{decl}, file.Decls...)
			file.Imports = append(file.Imports, spec)
		}
		var buf bytes.Buffer
		if err := format.Node(&buf, fset, file); err != nil {
			fmt.Fprintln(os.Stderr, "lockyield: cannot print", f, err)
			continue
		}
		dst := filepath.Join(*out, strings.ReplaceAll(strings.TrimPrefix(f, "/"), "/", "_"))
		if err := os.WriteFile(dst, buf.Bytes(), 0o644); err != nil {
			fmt.Fprintln(os.Stderr, err)
			os.Exit(2)
		}
		abs, _ := filepath.Abs(f)
		replace[abs] = dst
		total += n
	}
	b, _ := json.MarshalIndent(map[string]any{"Replace": replace}, "", " ")
	if err := os.WriteFile(*overlay, b, 0o644); err != nil {
		fmt.Fprintln(os.Stderr, err)
		os.Exit(2)
	}
	fmt.Printf("lockyield: %d lock sites in %d files of %s\n", total, len(replace), *src)
}
