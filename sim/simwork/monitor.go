//go:build verif

package simwork

import (
	"encoding/json"
	"fmt"
	"path/filepath"
	"strings"
	"sync"
	"time"
)

// Record is the part of a status record the monitors look at.
type Record struct {
	State      int
	Detail     string
	StdoutSize int64
	WorkType   string
	ExtraData  map[string]any
	Raw        string
	Valid      bool // parsed as JSON
	Empty      bool // zero length
}

// ParseRecord parses the bytes of a status file.
func ParseRecord(b []byte) Record {
	r := Record{Raw: string(b), Empty: len(b) == 0}
	var v struct {
		State      int
		Detail     string
		StdoutSize int64
		WorkType   string
		ExtraData  map[string]any
	}
	if err := json.Unmarshal(b, &v); err == nil {
		r.Valid = true
		r.State, r.Detail, r.StdoutSize, r.WorkType, r.ExtraData = v.State, v.Detail, v.StdoutSize, v.WorkType, v.ExtraData
	}
	return r
}

// Stage maps a state to its place in pending < running < finished.
func Stage(state int) int {
	switch state {
	case 0:
		return 0
	case 1:
		return 1
	default:
		return 2
	}
}

// Transition is one observed rewrite of a status record.
type Transition struct {
	File string // real path of the status file
	Unit string
	Kind string // update | save
	Old  Record
	New  Record
	By   string // path prefix (which process wrote it)
	At   time.Time
}

// Monitor watches every status rewrite in the process through the step hooks:
// just before the rewrite (old record still on disk, lock held by the writer)
// and just after the write.
type Monitor struct {
	mu      sync.Mutex
	pending map[string]Record // real file -> old record seen at the pre-write step
	Trans   []Transition
	OnTrans func(t Transition)
}

func NewMonitor(ctl *StepCtl) *Monitor {
	m := &Monitor{pending: map[string]Record{}}
	ctl.Observe(m.observe)
	return m
}

func realOf(path string) string {
	dir, err := filepath.EvalSymlinks(filepath.Dir(path))
	if err != nil {
		return path
	}
	return filepath.Join(dir, filepath.Base(path))
}

func (m *Monitor) observe(kind, path string) {
	switch kind {
	case "update.write", "save.open":
		real := realOf(path)
		old := ParseRecord(ReadRaw(path))
		m.mu.Lock()
		m.pending[real+"|"+path] = old
		m.mu.Unlock()
	case "update.done", "save.done":
		real := realOf(path)
		nw := ParseRecord(ReadRaw(path))
		m.mu.Lock()
		old, ok := m.pending[real+"|"+path]
		delete(m.pending, real+"|"+path)
		if !ok {
			m.mu.Unlock()
			return
		}
		k := "update"
		if strings.HasPrefix(kind, "save") {
			k = "save"
		}
		t := Transition{File: real, Unit: filepath.Base(filepath.Dir(real)), Kind: k, Old: old, New: nw, By: path, At: time.Now()}
		m.Trans = append(m.Trans, t)
		cb := m.OnTrans
		m.mu.Unlock()
		if cb != nil {
			cb(t)
		}
	}
}

// Transitions returns a copy of what was observed.
func (m *Monitor) Transitions() []Transition {
	m.mu.Lock()
	defer m.mu.Unlock()
	return append([]Transition(nil), m.Trans...)
}

// CheckForward returns a description of the first way in which t moves a
// unit backwards, or "".
func CheckForward(t Transition) string {
	if t.Old.Empty || !t.Old.Valid {
		return "" // first write, or a record destroyed by a crash (C04's business)
	}
	if !t.New.Valid {
		return fmt.Sprintf("record rewritten as something unparsable: %q", t.New.Raw)
	}
	if Stage(t.New.State) < Stage(t.Old.State) {
		return fmt.Sprintf("state went back from %d (%s) to %d (%s)", t.Old.State, t.Old.Detail, t.New.State, t.New.Detail)
	}
	if t.Old.State == 2 && (t.New.State != 2 || t.New.StdoutSize != t.Old.StdoutSize) {
		return fmt.Sprintf("succeeded unit changed: state %d size %d -> state %d size %d (%s)", t.Old.State, t.Old.StdoutSize, t.New.State, t.New.StdoutSize, t.New.Detail)
	}
	if t.Old.State == 1 && t.New.State == 1 && t.New.StdoutSize < t.Old.StdoutSize {
		return fmt.Sprintf("recorded output size shrank while running: %d -> %d", t.Old.StdoutSize, t.New.StdoutSize)
	}
	return ""
}
