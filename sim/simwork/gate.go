//go:build verif

package simwork

import (
	"bufio"
	"fmt"
	"os"
	"path/filepath"
	"strconv"
	"strings"
	"sync"
	"syscall"
	"time"
)

// Gate is the simulator's end of the step gate of detached runner processes (pkg/verifhook, VERIF_STEP_GATE):
// every file step of such a process is announced here and the process stays parked until Release.
type Gate struct {
	Dir  string
	Reqs chan *GateReq

	mu     sync.Mutex
	closed bool
	f      *os.File
}

// GateReq is one parked step of a runner process.
type GateReq struct {
	Pid  int
	N    int64
	Kind string
	Path string
	g    *Gate
	once sync.Once
}

// NewGate creates the rendezvous directory and starts reading announcements.
func NewGate(dir string) (*Gate, error) {
	if err := os.MkdirAll(dir, 0o700); err != nil {
		return nil, err
	}
	req := filepath.Join(dir, "req")
	if err := syscall.Mkfifo(req, 0o600); err != nil {
		return nil, err
	}
	// O_RDWR: the FIFO never reports end-of-file when the last runner closes its end
	f, err := os.OpenFile(req, os.O_RDWR, 0)
	if err != nil {
		return nil, err
	}
	g := &Gate{Dir: dir, Reqs: make(chan *GateReq, 1024), f: f}
	go func() {
		r := bufio.NewReader(f)
		for {
			line, err := r.ReadString('\n')
			if err != nil {
				return
			}
			parts := strings.SplitN(strings.TrimRight(line, "\n"), " ", 4)
			if len(parts) != 4 {
				continue
			}
			pid, _ := strconv.Atoi(parts[0])
			n, _ := strconv.ParseInt(parts[1], 10, 64)
			g.Reqs <- &GateReq{Pid: pid, N: n, Kind: parts[2], Path: parts[3], g: g}
		}
	}()
	return g, nil
}

// Release lets the parked step proceed.
func (r *GateReq) Release() {
	r.once.Do(func() {
		ack := filepath.Join(r.g.Dir, fmt.Sprintf("ack.%d.%d", r.Pid, r.N))
		// the runner opens its end for reading right after announcing the step; a runner that has been killed
		// in the meantime never does
		for i := 0; i < 3000; i++ {
			f, err := os.OpenFile(ack, os.O_WRONLY|syscall.O_NONBLOCK, 0)
			if err == nil {
				_, _ = f.Write([]byte{1})
				_ = f.Close()
				return
			}
			if os.IsNotExist(err) {
				return
			}
			time.Sleep(time.Millisecond)
		}
	})
}

// Close releases everything still parked and stops the gate.
func (g *Gate) Close() {
	g.mu.Lock()
	if g.closed {
		g.mu.Unlock()
		return
	}
	g.closed = true
	g.mu.Unlock()
	for {
		select {
		case r := <-g.Reqs:
			go r.Release()
		default:
			_ = g.f.Close()
			return
		}
	}
}
