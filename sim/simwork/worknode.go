//go:build verif

package simwork

import (
	"bufio"
	"context"
	"fmt"
	"net"
	"os"
	"path/filepath"
	"strings"
	"sync"
	"time"

	"github.com/ansible/receptor/pkg/controlsvc"
	"github.com/ansible/receptor/pkg/workceptor"
	"github.com/fsnotify/fsnotify"
	"verif/sim/simnet"
)

// ---------------------------------------------------------------------------
// scratch directory and the "receptor" dispatcher found through PATH

var (
	scratchOnce sync.Once
	scratchRoot string
	runCounter  int
	runMu       sync.Mutex
)

// Scratch returns the per-process scratch root (on tmpfs when the driver says
// so) and makes sure a dispatcher named "receptor" is first in PATH.  The
// daemon execs "receptor … --command-runner command=<cmd> …"; for work types
// whose command starts with "@stub" the dispatcher exits at once (the
// simulator plays the runner), otherwise it execs the real daemon binary
// built from the tree.
func Scratch() string {
	scratchOnce.Do(func() {
		base := os.Getenv("VERIF_SCRATCH")
		if base == "" {
			base = os.TempDir()
		}
		d, err := os.MkdirTemp(base, "work-")
		if err != nil {
			panic(err)
		}
		scratchRoot = d
		bin := filepath.Join(d, "bin")
		_ = os.MkdirAll(bin, 0o755)
		script := "#!/bin/sh\nfor a in \"$@\"; do case \"$a\" in command=@stub*) exit 0;; esac; done\nexec \"$VERIF_RECEPTOR_BIN\" \"$@\"\n"
		_ = os.WriteFile(filepath.Join(bin, "receptor"), []byte(script), 0o755)
		_ = os.Setenv("PATH", bin+":"+os.Getenv("PATH"))
	})
	return scratchRoot
}

// NewRunDir returns a fresh directory for one simulated run.
func NewRunDir() string {
	root := Scratch()
	runMu.Lock()
	runCounter++
	n := runCounter
	runMu.Unlock()
	d := filepath.Join(root, fmt.Sprintf("run-%d", n))
	_ = os.MkdirAll(d, 0o700)
	return d
}

// ---------------------------------------------------------------------------
// fake file watcher (real inotify would pin the simulated clock)

type fakeWatcher struct {
	ch chan fsnotify.Event
}

func (f *fakeWatcher) Add(string) error                  { return nil }
func (f *fakeWatcher) Close() error                      { return nil }
func (f *fakeWatcher) EventChannel() chan fsnotify.Event { return f.ch }

func init() {
	workceptor.VerifNewWatcher = func() workceptor.WatcherWrapper {
		return &fakeWatcher{ch: make(chan fsnotify.Event)}
	}
}

// ---------------------------------------------------------------------------
// work node

// WorkType describes a command work type registered on a node.
type WorkType struct {
	Name   string
	Cmd    string // "@stub" or a real command
	Params string
	Allow  bool // allow runtime params
	Verify bool
}

// WorkNode is a simulated node with a Workceptor and a control service.
type WorkNode struct {
	W     *simnet.World
	Ctl   *StepCtl
	Net   *simnet.Node
	ID    string
	Real  string // real data directory (what survives a crash)
	Types []WorkType
	// Configure runs on every new incarnation after New and before the work types are registered.
	Configure func(wc *workceptor.Workceptor)

	mu     sync.Mutex
	inc    int
	alias  string
	WC     *workceptor.Workceptor
	CS     *controlsvc.Server
	cancel context.CancelFunc
	up     bool
	conns  []*simnet.Conn
}

// NewWorkNode creates the node object (not started).
func NewWorkNode(w *simnet.World, ctl *StepCtl, net *simnet.Node, runDir string, types []WorkType) *WorkNode {
	real := filepath.Join(runDir, "data-"+net.ID)
	_ = os.MkdirAll(real, 0o700)
	return &WorkNode{W: w, Ctl: ctl, Net: net, ID: net.ID, Real: real, Types: types}
}

// Alias returns the directory name this incarnation uses for the data directory.
func (n *WorkNode) Alias() string {
	n.mu.Lock()
	defer n.mu.Unlock()
	return n.alias
}

// RunnerAlias is the name the runner processes of this node use for the same directory.
func (n *WorkNode) RunnerAlias() string { return n.Real + "-runner" }

// UnitDirReal returns the real path of a unit directory.
func (n *WorkNode) UnitDirReal(unit string) string { return filepath.Join(n.Real, n.ID, unit) }

// Start brings up a new incarnation on the same data directory.
func (n *WorkNode) Start() error {
	n.mu.Lock()
	defer n.mu.Unlock()
	if n.up {
		return nil
	}
	n.inc++
	n.alias = fmt.Sprintf("%s-inc-%d", n.Real, n.inc)
	_ = os.Symlink(n.Real, n.alias)
	if _, err := os.Lstat(n.RunnerAlias()); err != nil {
		_ = os.Symlink(n.Real, n.RunnerAlias())
	}
	if !n.Net.Up() {
		n.Net.Start()
	}
	ctx, cancel := context.WithCancel(context.Background())
	wc, err := workceptor.New(ctx, n.Net.Net(), n.alias)
	if err != nil {
		cancel()
		return err
	}
	workceptor.MainInstance = wc // used by the code only for logging on error paths
	if n.Configure != nil {
		n.Configure(wc)
	}
	for _, wt := range n.Types {
		cfg := workceptor.CommandWorkerCfg{WorkType: wt.Name, Command: wt.Cmd, Params: wt.Params, AllowRuntimeParams: wt.Allow, VerifySignature: wt.Verify}
		if err := wc.RegisterWorker(wt.Name, cfg.NewWorker, wt.Verify); err != nil {
			cancel()
			return err
		}
	}
	cs := controlsvc.New(true, n.Net.Net())
	if err := wc.RegisterWithControlService(cs); err != nil {
		cancel()
		return err
	}
	n.WC, n.CS, n.cancel, n.up = wc, cs, cancel, true
	n.W.Event("worknode %s start inc %d", n.ID, n.inc)
	return nil
}

// ServeMesh runs the control service on the mesh service "control" (for remote work).
func (n *WorkNode) ServeMesh() error {
	n.mu.Lock()
	cs, nc := n.CS, n.Net.Net()
	n.mu.Unlock()
	return cs.RunControlSvc(nc.Context(), "control", nil, "", 0, "", nil)
}

// Crash kills the incarnation: nothing of it takes another file step, its
// contexts are cancelled, its control sessions and mesh links go away.  The
// data directory keeps exactly what had been written.
func (n *WorkNode) Crash() {
	n.mu.Lock()
	if !n.up {
		n.mu.Unlock()
		return
	}
	n.up = false
	alias, cancel, conns := n.alias, n.cancel, n.conns
	n.conns = nil
	n.mu.Unlock()
	n.Ctl.Kill(alias + "/")
	cancel()
	for _, c := range conns {
		_ = c.Close()
	}
	n.Net.Stop()
	n.W.Count("fault_crash", 1)
	n.W.Event("worknode %s crash", n.ID)
}

func (n *WorkNode) Up() bool {
	n.mu.Lock()
	defer n.mu.Unlock()
	return n.up
}

// ---------------------------------------------------------------------------
// control client

// Client is a control-service session as a client sees it.
type Client struct {
	C *simnet.Conn
	R *bufio.Reader
}

// Session opens a control session.  network is what the server sees as the
// client's address family: "unix" for the local socket, "tcp" otherwise.
func (n *WorkNode) Session(network string) *Client {
	n.mu.Lock()
	cs := n.CS
	n.mu.Unlock()
	srv, cli := n.W.Pipe("ctl-server-"+n.ID, "ctl-client", network)
	n.mu.Lock()
	n.conns = append(n.conns, srv)
	n.mu.Unlock()
	go cs.RunControlSession(srv)
	c := &Client{C: cli, R: bufio.NewReader(cli)}
	return c
}

// DirectCmd runs one command on a fresh control session over a synchronous in-memory pipe that involves no
// simulated time at all (for use inside InjectOnce windows).  It returns the reply line, or "" if the session ended.
func (n *WorkNode) DirectCmd(line string) string {
	n.mu.Lock()
	cs := n.CS
	n.mu.Unlock()
	srv, cli := net.Pipe()
	go cs.RunControlSession(&unixConn{srv})
	r := bufio.NewReader(cli)
	if _, err := r.ReadString('\n'); err != nil { // greeting
		return ""
	}
	if _, err := cli.Write([]byte(line + "\n")); err != nil {
		return ""
	}
	reply, _ := r.ReadString('\n')
	_ = cli.Close()
	return strings.TrimRight(reply, "\n")
}

// unixConn reports the address family of the local control socket.
type unixConn struct{ net.Conn }

type unixAddr struct{}

func (unixAddr) Network() string { return "unix" }
func (unixAddr) String() string  { return "@direct" }

func (u *unixConn) RemoteAddr() net.Addr { return unixAddr{} }
func (u *unixConn) LocalAddr() net.Addr  { return unixAddr{} }

// ReadLine reads one line with a deadline in simulated time.
func (c *Client) ReadLine(timeout time.Duration) (string, error) {
	_ = c.C.SetReadDeadline(time.Now().Add(timeout))
	s, err := c.R.ReadString('\n')
	return strings.TrimRight(s, "\n"), err
}

// Hello consumes the greeting line.
func (c *Client) Hello() (string, error) { return c.ReadLine(5 * time.Second) }

// Cmd sends one command line and returns the one-line reply.
func (c *Client) Cmd(line string, timeout time.Duration) (string, error) {
	if _, err := c.C.Write([]byte(line + "\n")); err != nil {
		return "", err
	}
	return c.ReadLine(timeout)
}

// ReadAll reads until EOF or deadline.
func (c *Client) ReadAll(timeout time.Duration) ([]byte, error) {
	_ = c.C.SetReadDeadline(time.Now().Add(timeout))
	var out []byte
	buf := make([]byte, 65536)
	for {
		n, err := c.R.Read(buf)
		out = append(out, buf[:n]...)
		if err != nil {
			if err.Error() == "EOF" {
				return out, nil
			}
			return out, err
		}
	}
}

func (c *Client) Close() { _ = c.C.Close() }

// Submit runs "work submit" with the given JSON or plain command line and
// stdin payload; it returns the unit ID of the acknowledgement line and the
// final reply line.
func (c *Client) Submit(cmdLine string, stdin []byte, timeout time.Duration) (unit string, ack string, final string, err error) {
	ack, err = c.Cmd(cmdLine, timeout)
	if err != nil {
		return "", ack, "", err
	}
	const marker = "Work unit created with ID "
	i := strings.Index(ack, marker)
	if i < 0 {
		return "", ack, "", nil
	}
	rest := ack[i+len(marker):]
	if j := strings.Index(rest, "."); j >= 0 {
		unit = rest[:j]
	}
	if len(stdin) > 0 {
		if _, err = c.C.Write(stdin); err != nil {
			return unit, ack, "", err
		}
	}
	_ = c.C.CloseWrite()
	final, err = c.ReadLine(timeout)
	return unit, ack, final, err
}

// CleanupScratch removes the per-process scratch root.
func CleanupScratch() {
	if scratchRoot != "" {
		_ = os.RemoveAll(scratchRoot)
	}
}

// RemoveRunDir removes the directory of one finished run (and the aliases next to it).
func RemoveRunDir(d string) { _ = os.RemoveAll(d) }
