//go:build verif

package simwork

import (
	"bytes"
	"os"
	"runtime"
	"strconv"
	"sync"
	"syscall"
	"time"

	"verif/sim/simnet"
)

// Sched runs a set of tasks strictly one at a time, switching between them at
// the step hooks in an order decided by a hash of (seed, decision number,
// task): every interleaving of their file steps that the real flock admits can
// be drawn, and one seed is one exact interleaving.
//
// A task parked just before taking a status lock is released only when a
// non-blocking flock probe on that lock file succeeds, so no task ever blocks
// in the kernel on a lock held by a parked task — and the exclusion under test
// is always the real flock, never a model of it.
type Sched struct {
	Seed uint64
	mu   sync.Mutex
	// all access below under mu
	tasks    map[int64]*schedTask // by goroutine id
	order    []*schedTask
	wake     chan struct{}
	decision int
	Clock    int64 // global event counter (stamps for histories)
	Stats    map[string]int64
	daemonIn *schedTask // the daemon-side task currently inside an operation
	// MutexFree, when set, replaces the blanket "one daemon task inside an operation at a time" rule by the real
	// thing: a daemon task may start an operation when a non-blocking probe of the unit's in-process lock succeeds.
	// A task that nevertheless blocks on that lock in the middle of an operation (code that takes it late) is noticed
	// by a real-time watchdog and set aside until it shows up at a step again.
	MutexFree func() bool
	// KernelQueue, when set, adds one more choice at a status-lock step whose lock is held: now and then (a hash of
	// seed, decision and task) the task is released all the same and goes to sleep inside the kernel's flock, with
	// its own descriptor on the lock file as it is at that moment - a real queued waiter.  It is set aside like a
	// task stuck on an in-process lock and is an ordinary parked task again when it shows up at its next step.
	KernelQueue bool
}

type schedTask struct {
	name   string
	goid   int64
	daemon bool
	grant  chan struct{}
	parked bool
	stuck  bool // running but not progressing: waiting for an in-process lock held by a parked task
	kind   string
	path   string
	done   bool
	inOp   bool
}

// stuckAfter is how long (real time) the scheduler waits for the running task to reach its next step before it
// concludes that the task is waiting for an in-process lock.
var stuckAfter = 400 * time.Millisecond

func init() {
	if v := os.Getenv("VERIF_STUCK_AFTER_US"); v != "" {
		if n, err := strconv.Atoi(v); err == nil {
			stuckAfter = time.Duration(n) * time.Microsecond
		}
	}
}

func NewSched(seed uint64) *Sched {
	return &Sched{Seed: seed, tasks: map[int64]*schedTask{}, wake: make(chan struct{}, 1), Stats: map[string]int64{}}
}

func goid() int64 {
	var buf [64]byte
	n := runtime.Stack(buf[:], false)
	// "goroutine 123 [running]:"
	f := bytes.Fields(buf[:n])
	if len(f) < 2 {
		return -1
	}
	id, _ := strconv.ParseInt(string(f[1]), 10, 64)
	return id
}

// Go starts a task.  daemon marks tasks that share the daemon's in-process
// locks: only one of them is inside an operation at a time (they would
// serialise on the unit's mutex anyway, and a parked holder of a Go mutex
// would wedge the others).
func (s *Sched) Go(name string, daemon bool, f func(t *Task)) {
	st := &schedTask{name: name, daemon: daemon, grant: make(chan struct{})}
	s.mu.Lock()
	s.order = append(s.order, st)
	s.mu.Unlock()
	ready := make(chan struct{})
	go func() {
		st.goid = goid()
		s.mu.Lock()
		s.tasks[st.goid] = st
		s.mu.Unlock()
		close(ready)
		t := &Task{s: s, st: st}
		t.park("task.start", "")
		f(t)
		s.mu.Lock()
		st.done = true
		if s.daemonIn == st {
			s.daemonIn = nil
		}
		s.mu.Unlock()
		s.signal()
	}()
	<-ready
}

// Task is the handle a task function uses to mark operation boundaries.
type Task struct {
	s  *Sched
	st *schedTask
}

// Begin marks the start of an operation and returns its invocation stamp.
func (t *Task) Begin() int64 {
	t.park("op.start", "")
	t.s.mu.Lock()
	defer t.s.mu.Unlock()
	t.st.inOp = true
	if t.st.daemon {
		t.s.daemonIn = t.st
	}
	t.s.Clock++
	return t.s.Clock
}

// End marks the end of an operation and returns its return stamp.
func (t *Task) End() int64 {
	t.s.mu.Lock()
	defer t.s.mu.Unlock()
	t.st.inOp = false
	if t.s.daemonIn == t.st {
		t.s.daemonIn = nil
	}
	t.s.Clock++
	return t.s.Clock
}

func (s *Sched) signal() {
	select {
	case s.wake <- struct{}{}:
	default:
	}
}

func (t *Task) park(kind, path string) {
	st := t.st
	t.s.mu.Lock()
	st.parked, st.stuck, st.kind, st.path = true, false, kind, path
	t.s.mu.Unlock()
	t.s.signal()
	<-st.grant
}

// Step is the step-hook entry: tasks of this scheduler park, anything else passes.
func (s *Sched) Step(kind, path string) {
	id := goid()
	s.mu.Lock()
	st := s.tasks[id]
	s.mu.Unlock()
	if st == nil {
		return
	}
	(&Task{s: s, st: st}).park(kind, path)
}

func lockFree(statusPath string) bool {
	f, err := os.OpenFile(statusPath+".lock", os.O_CREATE|os.O_RDWR, 0o600)
	if err != nil {
		return true
	}
	defer f.Close()
	if err := syscall.Flock(int(f.Fd()), syscall.LOCK_EX|syscall.LOCK_NB); err != nil {
		return false
	}
	_ = syscall.Flock(int(f.Fd()), syscall.LOCK_UN)
	return true
}

// Run drives the tasks to completion.  It returns false if it finds every
// remaining task ineligible (a deadlock in the code under test).
func (s *Sched) Run() bool {
	for {
		select {
		case <-s.wake:
		case <-time.After(stuckAfter):
			// nobody parked or finished for a long (real) while: whoever is running is waiting for an in-process lock
			s.mu.Lock()
			for _, t := range s.order {
				if !t.done && !t.parked && !t.stuck {
					t.stuck = true
					s.Stats["sched_stuck_on_inprocess_lock"]++
				}
			}
			s.mu.Unlock()
		}
		for {
			s.mu.Lock()
			allParked, live, stuck := true, 0, 0
			for _, t := range s.order {
				if t.done {
					continue
				}
				live++
				if t.stuck {
					stuck++
					continue
				}
				if !t.parked {
					allParked = false
				}
			}
			if live == 0 {
				s.mu.Unlock()
				return true
			}
			if !allParked {
				s.mu.Unlock()
				break // the running task will signal when it parks or finishes
			}
			var elig []*schedTask
			var queue *schedTask
			for _, t := range s.order {
				if t.done || t.stuck {
					continue
				}
				switch {
				case t.kind == "op.start" && t.daemon && s.MutexFree == nil && s.daemonIn != nil:
					s.Stats["sched_daemon_serialised"]++
				case t.kind == "op.start" && t.daemon && s.MutexFree != nil && !s.MutexFree():
					s.Stats["sched_daemon_serialised"]++
				case len(t.kind) > 5 && t.kind[len(t.kind)-5:] == ".lock" && !lockFree(t.path):
					s.Stats["sched_lock_waits"]++
					if s.KernelQueue && !t.daemon && queue == nil && simnet.H(s.Seed, "kernelqueue", s.decision, t.name)%12 == 0 {
						queue = t
					}
				default:
					elig = append(elig, t)
				}
			}
			if queue != nil && len(elig) > 0 {
				// everybody else is parked, so the lock stays held until this task sleeps in flock behind it
				s.decision++
				s.Stats["sched_kernel_queue_entered"]++
				queue.parked, queue.stuck = false, true
				s.mu.Unlock()
				queue.grant <- struct{}{}
				time.Sleep(20 * time.Millisecond) // (real time: let it reach the system call before the holder moves on)
				continue
			}
			if len(elig) == 0 {
				s.mu.Unlock()
				if stuck > 0 {
					// a task set aside as "waiting for an in-process lock" may simply have been slow (a loaded machine): it
					// is still running, so nothing can be concluded before it shows up at a step or finishes
					break
				}
				return false
			}
			s.decision++
			best := elig[0]
			bh := simnet.H(s.Seed, "sched", s.decision, best.name)
			for _, t := range elig[1:] {
				if h := simnet.H(s.Seed, "sched", s.decision, t.name); h < bh {
					best, bh = t, h
				}
			}
			if len(elig) > 1 {
				s.Stats["sched_choice_points"]++
			}
			best.parked = false
			s.mu.Unlock()
			best.grant <- struct{}{}
			break
		}
	}
}
