//go:build verif

// Package simwork is the node+disk part of the simulator: real Workceptor and
// control service instances on a real directory tree, with every file-system
// step of the unit protocol going through a step controller that can record,
// observe, park, or "crash" the caller there.
package simwork

import (
	"os"
	"runtime"
	"strings"
	"sync"
	"syscall"

	"github.com/ansible/receptor/pkg/verifhook"
)

// StepRec is one recorded step.
type StepRec struct {
	N    int
	Kind string
	Path string
}

// StepCtl owns the step hook of the process.  There is one per run.
type StepCtl struct {
	mu      sync.Mutex
	n       int
	trace   []StepRec
	dead    []string // path prefixes of dead incarnations/processes: they never take a step again
	crashAt map[string]*crashSpec
	observe []func(kind, path string)
	inject  []*injectSpec
	Record  bool
	stats   map[string]int64
}

type injectSpec struct {
	kind  string
	match string
	fn    func(path string)
	done  bool
}

type crashSpec struct {
	prefix  string
	kind    string // "" = any
	nth     int    // 1-based count of matching steps
	seen    int
	onCrash func()
	fired   bool
}

func NewStepCtl() *StepCtl {
	c := &StepCtl{crashAt: map[string]*crashSpec{}, stats: map[string]int64{}}
	verifhook.SetStepHandler(c.step)
	return c
}

// Close removes the handler (end of run).
func (c *StepCtl) Close() { verifhook.SetStepHandler(nil) }

// Kill marks everything under prefix as belonging to a dead process.
func (c *StepCtl) Kill(prefix string) {
	c.mu.Lock()
	c.dead = append(c.dead, prefix)
	c.mu.Unlock()
}

// CrashAt arms a crash of the process owning prefix at its nth step of kind
// (kind "" counts every step).  onCrash runs on the crashing goroutine before
// it unwinds (to sever links, cancel contexts).
func (c *StepCtl) CrashAt(name, prefix, kind string, nth int, onCrash func()) {
	c.mu.Lock()
	c.crashAt[name] = &crashSpec{prefix: prefix, kind: kind, nth: nth, onCrash: onCrash}
	c.mu.Unlock()
}

// DisarmAll cancels every crash that has not happened yet (before a run's final observations).
func (c *StepCtl) DisarmAll() {
	c.mu.Lock()
	for k, s := range c.crashAt {
		if !s.fired {
			delete(c.crashAt, k)
		}
	}
	c.mu.Unlock()
}

// Fired reports whether the named crash happened.
func (c *StepCtl) Fired(name string) bool {
	c.mu.Lock()
	defer c.mu.Unlock()
	s := c.crashAt[name]
	return s != nil && s.fired
}

// InjectOnce arranges for fn to run on its own goroutine the next time a step of the given kind is reached on a
// path containing match, *inside* that step's window: the stepping goroutine (which may hold locks of the code under
// test) is held back for a few milliseconds of real time, so that fn either completes inside the window or is
// blocked by whatever the code holds there.  fn must not depend on simulated time (no simulated pipes, no timers).
func (c *StepCtl) InjectOnce(kind, match string, fn func(path string)) {
	c.mu.Lock()
	c.inject = append(c.inject, &injectSpec{kind: kind, match: match, fn: fn})
	c.mu.Unlock()
}

// Observe registers a callback run synchronously on the stepping goroutine.
func (c *StepCtl) Observe(f func(kind, path string)) {
	c.mu.Lock()
	c.observe = append(c.observe, f)
	c.mu.Unlock()
}

// Trace returns the recorded steps.
func (c *StepCtl) Trace() []StepRec {
	c.mu.Lock()
	defer c.mu.Unlock()
	return append([]StepRec(nil), c.trace...)
}

func (c *StepCtl) Stats() map[string]int64 {
	c.mu.Lock()
	defer c.mu.Unlock()
	m := map[string]int64{}
	for k, v := range c.stats {
		m[k] = v
	}
	return m
}

func (c *StepCtl) step(kind, path string) {
	c.mu.Lock()
	for _, d := range c.dead {
		if strings.HasPrefix(path, d) {
			c.stats["steps_refused_dead"]++
			c.mu.Unlock()
			runtime.Goexit()
		}
	}
	c.n++
	if c.Record {
		c.trace = append(c.trace, StepRec{c.n, kind, path})
	}
	var fire *crashSpec
	for _, s := range c.crashAt {
		if s.fired || !strings.HasPrefix(path, s.prefix) {
			continue
		}
		if s.kind != "" && s.kind != kind {
			continue
		}
		s.seen++
		if s.seen == s.nth {
			s.fired = true
			fire = s
			c.dead = append(c.dead, s.prefix)
			c.stats["fault_crash_at_step"]++
			c.stats["fault_crash_at_"+kind]++
			break
		}
	}
	obs := c.observe
	var inj *injectSpec
	for _, i := range c.inject {
		if !i.done && i.kind == kind && strings.Contains(path, i.match) {
			i.done = true
			inj = i
			c.stats["fault_injected_in_window_"+kind]++
			break
		}
	}
	c.mu.Unlock()
	if inj != nil {
		go inj.fn(path)
		// real time, not simulated: the fake clock must not move while the window is held open
		ts := syscall.Timespec{Sec: 0, Nsec: 3_000_000}
		_ = syscall.Nanosleep(&ts, nil)
	}
	if fire != nil {
		if fire.onCrash != nil {
			fire.onCrash()
		}
		runtime.Goexit()
	}
	for _, f := range obs {
		f(kind, path)
	}
}

// ReadRaw reads a file without taking any lock (for observers running on a
// goroutine that already holds the record's lock).
func ReadRaw(path string) []byte {
	b, err := os.ReadFile(path)
	if err != nil {
		return nil
	}
	return b
}
