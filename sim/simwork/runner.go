//go:build verif

package simwork

import (
	"fmt"
	"os"
	"path/filepath"
	"strings"
	"sync"
	"time"

	"github.com/ansible/receptor/pkg/workceptor"
	"verif/sim/simnet"
)

// RunnerPlan is how the stub runner of one unit behaves: the output it
// produces (in chunks, with pauses) and how it ends.
type RunnerPlan struct {
	Chunks   []int `json:"chunks"`    // sizes of the successive writes to stdout
	PauseMs  []int `json:"pause_ms"`  // pause before each write
	ExitFail bool  `json:"exit_fail"` // exit status != 0
	NoStdout bool  `json:"no_stdout"` // never creates the stdout file
	EndMs    int   `json:"end_ms"`    // pause between the last write and exit
}

// Output returns the deterministic output bytes of a unit's runner.
func Output(seed uint64, key string, n int) []byte {
	return simnet.NewRng(seed, "out-"+key).Bytes(n)
}

func (p RunnerPlan) Total() int {
	t := 0
	for _, c := range p.Chunks {
		t += c
	}
	return t
}

// Runners manages the stub runner processes of a node.  A stub runner is a
// task that performs the documented write sequence of the command runner
// (pending "Not started yet" → running ticks every 250 ms with the current
// stdout size → succeeded/failed with the final size) through the real,
// exported StatusFileData primitives, reaching the unit directory through its
// own alias, so that it survives a crash of the daemon as the detached real
// runner does.
type Runners struct {
	W    *simnet.World
	Ctl  *StepCtl
	Node *WorkNode
	Seed uint64
	// PlanFor returns the behaviour for the n-th unit started on this node.
	PlanFor func(n int) RunnerPlan

	mu      sync.Mutex
	started int
	byUnit  map[string]*RunnerState
}

// RunnerState is what the simulator knows about one stub runner (ground truth for oracles).
type RunnerState struct {
	Unit     string
	Plan     RunnerPlan
	Out      []byte
	Written  int
	Done     bool
	Failed   bool
	Killed   bool
	DoneAt   time.Duration
	StartAt  time.Duration
	prefix   string
	stop     chan struct{}
	stopOnce sync.Once
}

// NewRunners installs the "command.exec" observer that starts a stub runner
// whenever the daemon launches its command runner for a unit.
func NewRunners(w *simnet.World, ctl *StepCtl, node *WorkNode, seed uint64, planFor func(n int) RunnerPlan) *Runners {
	r := &Runners{W: w, Ctl: ctl, Node: node, Seed: seed, PlanFor: planFor, byUnit: map[string]*RunnerState{}}
	ctl.Observe(func(kind, path string) {
		if kind != "command.exec" || !strings.HasPrefix(path, node.Real+"-inc-") {
			return
		}
		unit := filepath.Base(filepath.Dir(path))
		r.start(unit)
	})
	return r
}

// State returns the runner state of a unit (nil if none was started).
func (r *Runners) State(unit string) *RunnerState {
	r.mu.Lock()
	defer r.mu.Unlock()
	return r.byUnit[unit]
}

// All returns all runner states.
func (r *Runners) All() []*RunnerState {
	r.mu.Lock()
	defer r.mu.Unlock()
	out := []*RunnerState{}
	for _, s := range r.byUnit {
		out = append(out, s)
	}
	return out
}

// Kill kills the stub runner process of a unit (it takes no further step).
func (r *Runners) Kill(unit string) {
	st := r.State(unit)
	if st == nil {
		return
	}
	r.Ctl.Kill(st.prefix)
	st.stopOnce.Do(func() { close(st.stop) })
	r.mu.Lock()
	st.Killed = true
	r.mu.Unlock()
}

func (r *Runners) start(unit string) {
	r.mu.Lock()
	if _, ok := r.byUnit[unit]; ok {
		r.mu.Unlock()
		return
	}
	n := r.started
	r.started++
	plan := r.PlanFor(n)
	// every runner process reaches the directory through its own name
	alias := fmt.Sprintf("%s-%s", r.Node.RunnerAlias(), unit)
	_ = os.Symlink(r.Node.Real, alias)
	st := &RunnerState{Unit: unit, Plan: plan, Out: Output(r.Seed, fmt.Sprintf("%s-%d", r.Node.ID, n), plan.Total()),
		prefix: alias + "/", stop: make(chan struct{}), StartAt: r.W.Now()}
	r.byUnit[unit] = st
	r.mu.Unlock()
	unitdir := filepath.Join(alias, r.Node.ID, unit)
	go r.run(st, unitdir)
}

func (r *Runners) sleep(st *RunnerState, d time.Duration) bool {
	select {
	case <-st.stop:
		return false
	case <-time.After(d):
		return true
	}
}

func (r *Runners) run(st *RunnerState, unitdir string) {
	status := workceptor.StatusFileData{}
	status.ExtraData = &workceptor.CommandExtraData{}
	statusFile := filepath.Join(unitdir, "status")
	// process start-up takes a moment
	if !r.sleep(st, 30*time.Millisecond) {
		return
	}
	_ = status.UpdateBasicStatus(statusFile, workceptor.WorkStatePending, "Not started yet", 0)
	var f *os.File
	if !st.Plan.NoStdout {
		var err error
		f, err = os.OpenFile(filepath.Join(unitdir, "stdout"), os.O_CREATE|os.O_WRONLY|os.O_APPEND, 0o600)
		if err != nil {
			return
		}
		defer f.Close()
	}
	size := func() int64 {
		fi, err := os.Stat(filepath.Join(unitdir, "stdout"))
		if err != nil {
			return 0
		}
		return fi.Size()
	}
	// ticker: status "Running" every 250 ms, as the real runner does
	tickStop := make(chan struct{})
	tickDone := make(chan struct{})
	go func() {
		defer close(tickDone)
		for {
			select {
			case <-tickStop:
				return
			case <-st.stop:
				return
			case <-time.After(250 * time.Millisecond):
				_ = status.UpdateBasicStatus(statusFile, workceptor.WorkStateRunning, "Running: PID 4242", size())
			}
		}
	}()
	off := 0
	for i, c := range st.Plan.Chunks {
		p := 0
		if i < len(st.Plan.PauseMs) {
			p = st.Plan.PauseMs[i]
		}
		if !r.sleep(st, time.Duration(p)*time.Millisecond+time.Duration(i+1)*time.Microsecond) {
			close(tickStop)
			return
		}
		if f != nil && c > 0 {
			_, _ = f.Write(st.Out[off : off+c])
		}
		off += c
		r.mu.Lock()
		st.Written = off
		r.mu.Unlock()
	}
	if !r.sleep(st, time.Duration(st.Plan.EndMs)*time.Millisecond+777*time.Microsecond) {
		close(tickStop)
		return
	}
	close(tickStop)
	<-tickDone
	if st.Plan.ExitFail {
		_ = status.UpdateBasicStatus(statusFile, workceptor.WorkStateFailed, "exit status 1", size())
	} else {
		_ = status.UpdateBasicStatus(statusFile, workceptor.WorkStateSucceeded, "exit status 0", size())
	}
	r.mu.Lock()
	st.Done, st.Failed, st.DoneAt = true, st.Plan.ExitFail, r.W.Now()
	r.mu.Unlock()
}
