//go:build verif

package checks

import (
	"bytes"
	"encoding/json"
	"fmt"
	"strings"
	"sync"
	"testing"
	"time"

	"verif/sim/simnet"
	"verif/sim/simwork"
)

// C05 — work results stream exactly the output from any offset and end when complete.

type c05Read struct {
	AtMs   int  `json:"at_ms"`  // when the client asks, relative to the submit
	Offset int  `json:"offset"` // -1: size, -2: size-1, -3: middle (resolved against the total)
	JSON   bool `json:"json"`
}

type c05Unit struct {
	Runner simwork.RunnerPlan `json:"runner"`
	Reads  []c05Read          `json:"reads"`
}

type C05Plan struct {
	Units  []c05Unit   `json:"units"`
	Remote *RemotePlan `json:"remote,omitempty"` // the unit runs on another node (remote_test.go)
	Shrink []string    `json:"_shrink"`
}

func genRunnerPlan(r *simnet.Rng, big bool) simwork.RunnerPlan {
	rp := simwork.RunnerPlan{}
	nc := r.Intn(7)
	if r.Bool(0.1) {
		nc = 0
	}
	sizes := []int{0, 1, 10, 1000, 65535, 65536, 65537, 131072, 4096}
	for i := 0; i < nc; i++ {
		c := simnet.Pick(r, sizes)
		if r.Bool(0.5) {
			c = r.Intn(3000)
		}
		if !big && c > 70000 {
			c = 70000
		}
		rp.Chunks = append(rp.Chunks, c)
		rp.PauseMs = append(rp.PauseMs, simnet.Pick(r, []int{0, 1, 50, 240, 260, 600, 1500}))
	}
	rp.ExitFail = r.Bool(0.25)
	rp.NoStdout = nc == 0 && r.Bool(0.5)
	rp.EndMs = simnet.Pick(r, []int{0, 10, 300, 1200})
	return rp
}

func genC05(seed uint64, tier string) any {
	r := simnet.NewRng(seed, "c05")
	p := &C05Plan{Shrink: []string{"units"}}
	if r.Bool(0.25) {
		p.Remote = genRemote(r, "c05", tier)
		p.Shrink = []string{"remote.faults", "remote.reads"}
		return p
	}
	nu := r.Range(1, 3)
	for u := 0; u < nu; u++ {
		cu := c05Unit{Runner: genRunnerPlan(r, tier == "thorough")}
		total := cu.Runner.Total()
		for k := r.Range(1, 4); k > 0; k-- {
			rd := c05Read{AtMs: simnet.Pick(r, []int{0, 10, 100, 400, 900, 2000, 5000, 9000}), JSON: r.Bool(0.5)}
			switch r.Intn(6) {
			case 0:
				rd.Offset = 0
			case 1:
				rd.Offset = -1
			case 2:
				rd.Offset = -2
			case 3:
				rd.Offset = -3
			case 4:
				rd.Offset = simnet.Pick(r, []int{1, 65535, 65536, 65537})
			default:
				if total > 0 {
					rd.Offset = r.Intn(total + 1)
				}
			}
			cu.Reads = append(cu.Reads, rd)
		}
		p.Units = append(p.Units, cu)
	}
	return p
}

func c05Offset(o, total int) int {
	switch o {
	case -1:
		return total
	case -2:
		if total > 0 {
			return total - 1
		}
		return 0
	case -3:
		return total / 2
	}
	if o > total {
		return total
	}
	if o < 0 {
		return 0
	}
	return o
}

func runC05(t *testing.T, planAny any, res *simnet.Result) {
	p := planAny.(*C05Plan)
	if p.Remote != nil {
		runRemote(t, p.Remote, "c05", res)
		return
	}
	runDir := simwork.NewRunDir()
	defer simwork.RemoveRunDir(runDir)
	simnet.Bubble(t, func() {
		w := simnet.NewWorld(res.Seed)
		ctl := simwork.NewStepCtl()
		defer ctl.Close()
		m := simnet.NewMesh(w)
		k := simnet.DefaultKnobs()
		k.ServiceAd = 0
		nn := m.AddNode("w0", k)
		node := simwork.NewWorkNode(w, ctl, nn, runDir, []simwork.WorkType{{Name: "echo", Cmd: "@stub"}})
		if err := node.Start(); err != nil {
			res.Violate("harness", "start: %v", err)
			return
		}
		runners := simwork.NewRunners(w, ctl, node, res.Seed, func(n int) simwork.RunnerPlan {
			if n < len(p.Units) {
				return p.Units[n].Runner
			}
			return simwork.RunnerPlan{}
		})
		var wg sync.WaitGroup
		var mu sync.Mutex
		classes := map[string]bool{}
		for ui, cu := range p.Units {
			cl := node.Session("unix")
			if _, err := cl.Hello(); err != nil {
				res.Violate("harness", "hello: %v", err)
				return
			}
			unit, ack, final, err := cl.Submit("work submit w0 echo", []byte("input"), 20*time.Second)
			cl.Close()
			if unit == "" || err != nil || strings.HasPrefix(final, "ERROR") {
				res.Violate("c05:submit-failed", "unit %d: ack=%q final=%q err=%v", ui, ack, final, err)
				return
			}
			t0 := w.Now()
			total := cu.Runner.Total()
			for ri, rd := range cu.Reads {
				wg.Add(1)
				go func(ui, ri int, rd c05Read, unit string, total int) {
					defer wg.Done()
					w.SleepUntil(t0 + time.Duration(rd.AtMs)*time.Millisecond + time.Duration(ri)*time.Microsecond)
					off := c05Offset(rd.Offset, total)
					c := node.Session("unix")
					defer c.Close()
					_, _ = c.Hello()
					var line string
					if rd.JSON {
						b, _ := json.Marshal(map[string]any{"command": "work", "subcommand": "results", "unitid": unit, "startpos": off})
						line = string(b)
					} else {
						line = fmt.Sprintf("work results %s %d", unit, off)
					}
					hdr, err := c.Cmd(line, 30*time.Second)
					if err != nil || !strings.HasPrefix(hdr, "Streaming results for work unit "+unit) {
						mu.Lock()
						res.Violate("c05:no-stream", "unit %d read %d (offset %d): header %q err %v", ui, ri, off, hdr, err)
						mu.Unlock()
						return
					}
					data, err := c.ReadAll(120 * time.Second)
					endAt := w.Now()
					st := runners.State(unit)
					mu.Lock()
					defer mu.Unlock()
					res.Add("streams_read", 1)
					if st == nil {
						res.Violate("harness", "no runner for %s", unit)
						return
					}
					want := st.Out[off:]
					if st.Plan.NoStdout {
						want = nil
					}
					if err != nil {
						res.Violate("c05:stream-not-ending", "unit %d (total %d, done at %v) offset %d: stream did not end within 120 s of simulated time, got %d bytes (err %v)",
							ui, total, st.DoneAt, off, len(data), err)
						return
					}
					if !bytes.Equal(data, want) {
						sig := "c05:wrong-bytes"
						if len(data) < len(want) && bytes.Equal(data, want[:len(data)]) {
							sig = "c05:ended-early"
						} else if len(data) > len(want) {
							sig = "c05:extra-bytes"
						}
						res.Violate(sig, "unit %d (chunks %v, total %d, done at %v) offset %d asked at +%dms: got %d bytes, want %d (stream ended at %v)",
							ui, st.Plan.Chunks, total, st.DoneAt, off, rd.AtMs, len(data), len(want), endAt)
						return
					}
					if !st.Done || endAt < st.DoneAt {
						res.Violate("c05:ended-before-completion", "unit %d: stream ended at %v but the unit finished at %v (done=%v)", ui, endAt, st.DoneAt, st.Done)
					}
					if st.Done && endAt-st.DoneAt > 10*time.Second && endAt-(t0+time.Duration(rd.AtMs)*time.Millisecond) > 10*time.Second {
						res.Violate("c05:ends-late", "unit %d: stream ended %v after the unit finished", ui, endAt-st.DoneAt)
					}
					classes[fmt.Sprintf("chunks=%d total=%d off=%d at=%d fail=%v", len(st.Plan.Chunks), bucket(total), bucket(off), rd.AtMs, st.Plan.ExitFail)] = true
				}(ui, ri, rd, unit, total)
			}
		}
		wg.Wait()
		res.SimSeconds = w.Now().Seconds()
		res.LogHash, res.LogLines = w.CanonicalLogHash()
		res.Merge(w.Stats())
		res.Merge(ctl.Stats())
		ks := simnet.SortedKeys(classes)
		if len(ks) > 0 {
			res.Class = strings.Join(ks, ";")
		}
		node.Crash()
		time.Sleep(3 * time.Second)
	})
}

func bucket(n int) int {
	switch {
	case n == 0:
		return 0
	case n < 100:
		return 1
	case n < 65536:
		return 2
	case n == 65536:
		return 3
	default:
		return 4
	}
}

func TestC05(t *testing.T) {
	quiet()
	defer simwork.CleanupScratch()
	simnet.RunCheck(t, simnet.Check{ID: "C05", Gen: genC05, NewPlan: func() any { return &C05Plan{} }, Run: runC05})
}
