package checks

import (
	"context"
	"fmt"
	"os"
	"testing"
	"time"

	"github.com/ansible/receptor/pkg/netceptor"
	"verif/sim/simnet"
)

// C10 — hop limit bounds forwarding: reach iff distance <= hops; expiry is reported.

type c10Probe struct {
	Kind string `json:"kind"` // send ping trace loop2 loop3
	From int    `json:"from"`
	To   int    `json:"to"`
	Hops int    `json:"hops"`
}

type C10Plan struct {
	N       int        `json:"n"`
	Shape   string     `json:"shape"` // chain ring random
	Edges   [][2]int   `json:"edges"`
	CostK   []int      `json:"cost_k"`
	MaxHops int        `json:"max_hops"`
	Probes  []c10Probe `json:"probes"`
	Shrink  []string   `json:"_shrink"`
}

func genC10(seed uint64, tier string) any {
	r := simnet.NewRng(seed, "c10")
	p := &C10Plan{Shrink: []string{"probes"}}
	p.N = r.Range(2, 8)
	p.Shape = simnet.Pick(r, []string{"chain", "chain", "ring", "random"})
	// replies and expiry notices travel with the node default budget, so it must cover the diameter
	p.MaxHops = simnet.Pick(r, []int{p.N, p.N + 1, 12, 30, 30, 255})
	add := func(a, b int) {
		p.Edges = append(p.Edges, [2]int{a, b})
		p.CostK = append(p.CostK, len(p.Edges)*41+r.Intn(40))
	}
	switch p.Shape {
	case "chain":
		for i := 1; i < p.N; i++ {
			add(i-1, i)
		}
	case "ring":
		for i := 1; i < p.N; i++ {
			add(i-1, i)
		}
		if p.N > 2 {
			add(p.N-1, 0)
		}
	default:
		for i := 1; i < p.N; i++ {
			add(r.Intn(i), i)
		}
		for e := r.Intn(p.N); e > 0; e-- {
			a, b := r.Intn(p.N), r.Intn(p.N)
			ok := a != b
			for _, ed := range p.Edges {
				if (ed[0] == a && ed[1] == b) || (ed[0] == b && ed[1] == a) {
					ok = false
				}
			}
			if ok {
				add(a, b)
			}
		}
	}
	np := 30
	if tier == "thorough" {
		np = 120
	}
	for i := 0; i < np; i++ {
		pr := c10Probe{From: r.Intn(p.N), To: r.Intn(p.N)}
		switch x := r.Intn(100); {
		case x < 45:
			pr.Kind = "send"
		case x < 75:
			pr.Kind = "ping"
		case x < 88:
			pr.Kind = "trace"
		case x < 95:
			pr.Kind = "loop2"
		default:
			pr.Kind = "loop3"
		}
		switch r.Intn(4) {
		case 0:
			pr.Hops = r.Intn(256)
		case 1:
			pr.Hops = simnet.Pick(r, []int{0, 1, 255})
		default:
			pr.Hops = -1 - r.Intn(3) // relative to the distance: d-1, d, d+1 (resolved at run time)
		}
		p.Probes = append(p.Probes, pr)
	}
	return p
}

func runC10(t *testing.T, planAny any, res *simnet.Result) {
	p := planAny.(*C10Plan)
	simnet.Bubble(t, func() {
		w := simnet.NewWorld(res.Seed)
		m := simnet.NewMesh(w)
		k := simnet.DefaultKnobs()
		k.ServiceAd = 0
		k.MaxHops = p.MaxHops
		k.RouteUpdate = time.Hour // timers held off: tables are what the probes see
		k.MaxIdle = 3 * time.Hour
		ids := make([]string, p.N)
		for i := range ids {
			ids[i] = fmt.Sprintf("n%d", i)
			m.AddNode(ids[i], k)
		}
		for i, e := range p.Edges {
			if e[0] >= p.N || e[1] >= p.N || i >= len(p.CostK) {
				continue
			}
			name := fmt.Sprintf("L%d", i+1)
			cfg := simnet.LinkCfg{Name: name, Latency: time.Millisecond + time.Duration(simnet.H(res.Seed, "lat", name)%100000)*time.Nanosecond, FIFO: true,
				Framed: simnet.H(res.Seed, "fr", name)%2 == 0}
			l := m.AddLink(cfg, ids[e[0]], ids[e[1]], simnet.DyadicCost(1, p.CostK[i]))
			_ = m.Up(l)
		}
		time.Sleep(5 * time.Second)
		simnet.Quiesce()
		loopsDone := map[string]bool{}
		kinds := map[string]int{}
		for pi, pr := range p.Probes {
			if pr.From >= p.N || pr.To >= p.N {
				continue
			}
			src, dst := m.Nodes[ids[pr.From]], m.Nodes[ids[pr.To]]
			path := m.RoutePath(src.ID, dst.ID)
			if pr.Kind == "loop2" || pr.Kind == "loop3" {
				if !loopsDone[pr.Kind] {
					loopsDone[pr.Kind] = true
					if c10Loop(w, m, ids, pr, k, res) {
						kinds[pr.Kind]++
					}
				}
				continue
			}
			if path == nil {
				continue
			}
			d := len(path) - 1
			h := pr.Hops
			if h < 0 {
				h = d + (-h - 2) // -1→d-1, -2→d, -3→d+1
				if h < 0 {
					h = 0
				}
			}
			if h > 255 {
				h = 255
			}
			mark := w.WireLen()
			switch pr.Kind {
			case "send":
				kinds["send"]++
				c10Send(w, m, src, dst, path, d, h, pi, mark, res)
			case "ping":
				kinds["ping"]++
				_, from, err := src.Net().Ping(context.Background(), dst.ID, byte(h))
				simnet.Quiesce()
				switch {
				case d <= h && src.ID == dst.ID:
					if err != nil {
						res.Violate("c10:ping-self", "ping self with %d hops: %v", h, err)
					}
				case d <= h:
					if err != nil || from != dst.ID {
						res.Violate("c10:ping-reach", "ping %s->%s d=%d h=%d: from=%q err=%v (want answer from the target)", src.ID, dst.ID, d, h, from, err)
					}
				default:
					if err == nil || err.Error() != netceptor.ProblemExpiredInTransit || from != path[h] {
						res.Violate("c10:ping-expiry", "ping %s->%s d=%d h=%d path=%v: from=%q err=%v (want 'message expired' from %s)", src.ID, dst.ID, d, h, path, from, err, path[h])
					}
				}
				c10WireBudget(w, mark, h, res)
			case "trace":
				kinds["trace"]++
				var hopsSeen []string
				ctx, cancel := context.WithCancel(context.Background())
				for r := range src.Net().Traceroute(ctx, dst.ID) {
					if r.Err != nil {
						res.Violate("c10:traceroute-error", "traceroute %s->%s: %v", src.ID, dst.ID, r.Err)
						break
					}
					hopsSeen = append(hopsSeen, r.From)
				}
				cancel()
				simnet.Quiesce()
				if d <= p.MaxHops {
					if fmt.Sprint(hopsSeen) != fmt.Sprint(path) {
						res.Violate("c10:traceroute-path", "traceroute %s->%s listed %v, route is %v", src.ID, dst.ID, hopsSeen, path)
					}
				}
			}
		}
		res.SimSeconds = w.Now().Seconds()
		res.LogHash, res.LogLines = w.CanonicalLogHash()
		res.Merge(w.Stats())
		for kk, v := range kinds {
			res.Add("probe_"+kk, int64(v))
		}
		res.Class = fmt.Sprintf("%s n=%d maxhops=%d kinds=%d loops=%d", p.Shape, p.N, p.MaxHops, len(kinds), len(loopsDone))
		for _, n := range m.Nodes {
			n.Stop()
		}
		time.Sleep(3 * time.Second)
	})
}

// c10WireBudget: the data packets caused by one probe cross at most h links
// in the forward direction and their hop byte strictly decreases.
func c10WireBudget(w *simnet.World, mark, h int, res *simnet.Result) {
	fw := 0
	for _, r := range w.Wire()[mark:] {
		if r.Type == simnet.MsgData && r.DataTo != "unreach" && !isReply(r) {
			fw++
			if r.Hops >= h && h > 0 || r.Hops > 255 {
				res.Violate("c10:hop-byte", "forwarded packet carries hop byte %d, budget was %d", r.Hops, h)
			}
		}
	}
	if fw > h {
		res.Violate("c10:too-many-forwards", "probe with budget %d crossed %d links", h, fw)
	}
}

func isReply(r *simnet.WireRec) bool {
	// ping replies come from service "ping"
	if len(r.Raw) >= 28 {
		b := r.Raw[20:28]
		return string(b[:4]) == "ping" && b[4] == 0
	}
	return false
}

func c10Send(w *simnet.World, m *simnet.Mesh, src, dst *simnet.Node, path []string, d, h, pi, mark int, res *simnet.Result) {
	svc := fmt.Sprintf("t%d", pi)
	rsvc := fmt.Sprintf("r%d", pi)
	lpc, err := dst.Net().ListenPacket(rsvc)
	if err != nil {
		res.Violate("harness", "listen: %v", err)
		return
	}
	defer lpc.Close()
	spc, err := src.Net().ListenPacket(svc)
	if err != nil {
		res.Violate("harness", "listen: %v", err)
		return
	}
	defer spc.Close()
	// an unrelated socket on the sender must not hear about it
	opc, _ := src.Net().ListenPacket(fmt.Sprintf("o%d", pi))
	defer opc.Close()
	done := make(chan struct{})
	defer close(done)
	unr := spc.SubscribeUnreachable(done)
	ounr := opc.SubscribeUnreachable(done)
	got := make(chan string, 4)
	go func() {
		buf := make([]byte, 100)
		for {
			n, addr, err := lpc.ReadFrom(buf)
			if err != nil {
				return
			}
			got <- fmt.Sprintf("%s|%s", addr.String(), buf[:n])
		}
	}()
	spc.SetHopsToLive(byte(h))
	_, werr := spc.WriteTo([]byte("probe"), src.Net().NewAddr(dst.ID, rsvc))
	time.Sleep(500 * time.Millisecond)
	simnet.Quiesce()
	delivered := 0
	for len(got) > 0 {
		<-got
		delivered++
	}
	var notices []netceptor.UnreachableNotification
	for {
		select {
		case n := <-unr:
			notices = append(notices, n)
			continue
		default:
		}
		break
	}
	select {
	case n := <-ounr:
		res.Violate("c10:notice-wrong-socket", "unrelated socket received %+v", n)
	default:
	}
	if d <= h {
		if delivered != 1 || werr != nil {
			res.Violate("c10:not-delivered", "%s->%s d=%d h=%d: delivered %d times, write err %v, notices %v", src.ID, dst.ID, d, h, delivered, werr, notices)
		}
		if len(notices) != 0 {
			res.Violate("c10:spurious-notice", "%s->%s d=%d h=%d delivered but notices %v", src.ID, dst.ID, d, h, notices)
		}
	} else {
		if delivered != 0 {
			res.Violate("c10:delivered-beyond-budget", "%s->%s d=%d h=%d: delivered %d times", src.ID, dst.ID, d, h, delivered)
		}
		if len(notices) != 1 || notices[0].Problem != netceptor.ProblemExpiredInTransit || notices[0].ReceivedFromNode != path[h] ||
			notices[0].FromNode != src.ID || notices[0].ToNode != dst.ID || notices[0].FromService != svc || notices[0].ToService != rsvc {
			res.Violate("c10:expiry-notice", "%s->%s d=%d h=%d path=%v: notices=%+v (want one 'message expired' from %s echoing the packet)", src.ID, dst.ID, d, h, path, notices, path[h])
		}
	}
	c10WireBudget(w, mark, h, res)
}

// c10Loop builds a forwarding loop towards a phantom destination with forged
// routing updates and checks that a packet into the loop is forwarded at most
// its budget and that its traffic stops.
func c10Loop(w *simnet.World, m *simnet.Mesh, ids []string, pr c10Probe, k simnet.Knobs, res *simnet.Result) bool {
	// pick two (three) nodes that are directly connected in a row
	var cyc []string
	g := m.TrueGraph()
	want := 2
	if pr.Kind == "loop3" {
		want = 3
	}
	for _, a := range ids {
		for _, b := range simnet.SortedKeys(g[a]) {
			if want == 2 {
				cyc = []string{a, b}
				break
			}
			for _, c := range simnet.SortedKeys(g[b]) {
				if _, ok := g[c][a]; ok && c != a {
					cyc = []string{a, b, c}
					break
				}
			}
			if cyc != nil {
				break
			}
		}
		if cyc != nil {
			break
		}
	}
	if cyc == nil {
		return false
	}
	phantom := "zp" + pr.Kind
	// one scripted peer per cycle node; node i is told that cyc[i+1] has a link to the phantom
	peers := make([]*simnet.ScriptPeer, len(cyc))
	for i, id := range cyc {
		name := fmt.Sprintf("zs%s%d", pr.Kind[4:], i)
		l, sess, err := m.AttachScripted(m.Nodes[id], simnet.LinkCfg{Name: "S" + name, Latency: time.Millisecond + time.Duration(i)*time.Microsecond, FIFO: true}, name, 50)
		if err != nil {
			return false
		}
		peers[i] = simnet.NewScriptPeer(w, name, id, 50, l, sess)
		peers[i].Handshake()
	}
	time.Sleep(time.Second)
	simnet.Quiesce()
	// what every node currently believes about its successor in the cycle
	latest := func(origin string) (uint64, uint64, map[string]float64) {
		var e, s uint64
		var conns map[string]float64
		for _, r := range w.Wire() {
			if r.Route != nil && r.Route.NodeID == origin && r.Route.ForwardingNode == origin {
				if r.Route.UpdateEpoch > e || (r.Route.UpdateEpoch == e && r.Route.UpdateSequence > s) {
					e, s, conns = r.Route.UpdateEpoch, r.Route.UpdateSequence, r.Route.Connections
				}
			}
		}
		return e, s, conns
	}
	n := len(cyc)
	// A decoy origin everybody knows at sequence 1000: later decoy updates with a lower
	// sequence are marked as seen by the node that receives them and then dropped as stale,
	// i.e. they deafen exactly one node to an update ID without being relayed.
	_ = peers[0].SendRoute(&simnet.RoutingUpdate{NodeID: "zdecoy" + pr.Kind, UpdateID: "fzbase" + pr.Kind[4:], UpdateEpoch: 1 << 24, UpdateSequence: 1000,
		Connections: map[string]float64{}, ForwardingNode: peers[0].Name})
	time.Sleep(time.Second)
	for i := range cyc {
		succ := cyc[(i+1)%n]
		sp := peers[i]
		// poison: make the other cycle nodes deaf to the update IDs used for node i's private view
		idSucc, idPh := fmt.Sprintf("fz%s%dA", pr.Kind[4:], i), fmt.Sprintf("fz%s%dB", pr.Kind[4:], i)
		for j := range cyc {
			if j != i {
				_ = peers[j].SendRoute(&simnet.RoutingUpdate{NodeID: "zdecoy" + pr.Kind, UpdateID: idSucc, UpdateEpoch: 1 << 24, UpdateSequence: uint64(1 + i), Connections: map[string]float64{}, ForwardingNode: peers[j].Name})
				_ = peers[j].SendRoute(&simnet.RoutingUpdate{NodeID: "zdecoy" + pr.Kind, UpdateID: idPh, UpdateEpoch: 1 << 24, UpdateSequence: uint64(10 + i), Connections: map[string]float64{}, ForwardingNode: peers[j].Name})
			}
		}
		time.Sleep(20 * time.Millisecond)
		e, s, conns := latest(succ)
		forged := map[string]float64{phantom: 1}
		for kk, v := range conns {
			forged[kk] = v
		}
		phConns := map[string]float64{}
		for _, c := range cyc {
			phConns[c] = 1
		}
		_ = sp.SendRoute(&simnet.RoutingUpdate{NodeID: phantom, UpdateID: idPh, UpdateEpoch: 5 << 24, UpdateSequence: uint64(1 + i), Connections: phConns, ForwardingNode: sp.Name})
		_ = sp.SendRoute(&simnet.RoutingUpdate{NodeID: succ, UpdateID: idSucc, UpdateEpoch: e, UpdateSequence: s + 1000 + uint64(i), Connections: forged, ForwardingNode: sp.Name})
		time.Sleep(50 * time.Millisecond)
	}
	time.Sleep(2 * time.Second)
	simnet.Quiesce()
	// is the loop there?  (tables are the nodes' own; the check works on whatever they are)
	loop := true
	for i, id := range cyc {
		if m.Nodes[id].Net().Status().RoutingTable[phantom] != cyc[(i+1)%n] {
			loop = false
		}
	}
	if !loop {
		if os.Getenv("VERIF_DEBUG") != "" {
			for _, id := range cyc {
				st := m.Nodes[id].Net().Status()
				fmt.Fprintf(os.Stderr, "LOOP? %s cyc=%v rt=%v kcc=%v\n", id, cyc, st.RoutingTable, st.KnownConnectionCosts)
			}
		}
		res.Add("probe_loop_not_formed", 1)
		return false
	}
	res.Add("probe_"+pr.Kind+"_formed", 1)
	for _, h := range []int{0, 1, 2, 7, 30, 255} {
		src := m.Nodes[cyc[0]]
		pc, err := src.Net().ListenPacket("")
		if err != nil {
			continue
		}
		done := make(chan struct{})
		unr := pc.SubscribeUnreachable(done)
		pc.SetHopsToLive(byte(h))
		mark := w.WireLen()
		_, _ = pc.WriteTo([]byte("into the loop"), src.Net().NewAddr(phantom, "x"))
		time.Sleep(3 * time.Second)
		simnet.Quiesce()
		fw := 0
		last := 256
		mono := true
		for _, r := range w.Wire()[mark:] {
			if r.Type == simnet.MsgData && r.DataTo == "x" {
				fw++
				if r.Hops >= last {
					mono = false
				}
				last = r.Hops
			}
		}
		if fw > h {
			res.Violate("c10:loop-forwards", "packet with budget %d was forwarded %d times inside a %d-node routing loop", h, fw, n)
		}
		if !mono {
			res.Violate("c10:loop-hop-byte", "hop byte did not strictly decrease inside the loop (budget %d)", h)
		}
		tail := w.WireLen()
		time.Sleep(2 * time.Second)
		for _, r := range w.Wire()[tail:] {
			if r.Type == simnet.MsgData {
				res.Violate("c10:loop-traffic-continues", "data traffic still flowing 3 s after a budget-%d packet entered the loop", h)
				break
			}
		}
		gotNotice := 0
		for {
			select {
			case nn := <-unr:
				if nn.Problem == netceptor.ProblemExpiredInTransit && nn.ReceivedFromNode == cyc[h%n] {
					gotNotice++
				} else {
					res.Violate("c10:loop-expiry-notice", "budget %d in a %d-loop %v: notice %+v (want expiry from %s)", h, n, cyc, nn, cyc[h%n])
				}
				continue
			default:
			}
			break
		}
		if gotNotice != 1 {
			res.Violate("c10:loop-expiry-notice", "budget %d in a %d-loop: %d expiry notices reached the sender", h, n, gotNotice)
		}
		close(done)
		_ = pc.Close()
	}
	// A packet whose claimed source is the phantom itself: when its budget runs out inside the loop, the expiry
	// notice is addressed to the phantom and enters the same loop.  A notice is never answered with another notice,
	// and its own budget (the node default) bounds its travel like any other packet's.
	for _, h := range []int{0, 2, 5} {
		mark := w.WireLen()
		_ = peers[0].SendRaw(simnet.DataPacket(byte(h), phantom, phantom, "src", "x", []byte("spoofed source")))
		time.Sleep(4 * time.Second)
		simnet.Quiesce()
		fw, notices := 0, 0
		for _, r := range w.Wire()[mark:] {
			if r.Type != simnet.MsgData || r.From == peers[0].Name {
				continue
			}
			if r.DataTo == "unreach" {
				notices++
			} else {
				fw++
			}
		}
		if fw > h {
			res.Violate("c10:loop-forwards", "spoofed-source packet with budget %d was forwarded %d times inside the loop", h, fw)
		}
		if notices > k.MaxHops {
			res.Violate("c10:notice-loop-forwards", "the expiry notice for a budget-%d packet was forwarded %d times inside the loop (node default budget %d)", h, notices, k.MaxHops)
		}
		tail := w.WireLen()
		time.Sleep(2 * time.Second)
		for _, r := range w.Wire()[tail:] {
			if r.Type == simnet.MsgData {
				res.Violate("c10:loop-traffic-continues", "data traffic still flowing 4 s after a spoofed-source packet (budget %d) entered the loop: its expiry notice keeps circulating", h)
				break
			}
		}
		res.Add("probe_notice_in_loop", 1)
	}
	for _, sp := range peers {
		sp.Stop()
	}
	return true
}

func TestC10(t *testing.T) {
	quiet()
	simnet.RunCheck(t, simnet.Check{ID: "C10", Gen: genC10, NewPlan: func() any { return &C10Plan{} }, Run: runC10})
}
