package checks

import (
	"encoding/json"
	"os"

	"github.com/ansible/receptor/pkg/logger"
	"verif/sim/simnet"
)

func quiet() {
	if os.Getenv("VERIF_LOG") != "" { // debugging: let the code under test log
		logger.SetGlobalLogLevel(logger.DebugLevel)
		return
	}
	logger.SetGlobalQuietMode()
}

func routeMsg(ru *simnet.RoutingUpdate) []byte {
	b, _ := json.Marshal(ru)
	return append([]byte{simnet.MsgRoute}, b...)
}
