package checks

import (
	"encoding/json"

	"github.com/ansible/receptor/pkg/logger"
	"verif/sim/simnet"
)

func quiet() { logger.SetGlobalQuietMode() }

func routeMsg(ru *simnet.RoutingUpdate) []byte {
	b, _ := json.Marshal(ru)
	return append([]byte{simnet.MsgRoute}, b...)
}
