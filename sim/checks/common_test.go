package checks

import (
	"github.com/ansible/receptor/pkg/logger"
)

func quiet() { logger.SetGlobalQuietMode() }
