package checks

import (
	"encoding/json"
	"os"

	"github.com/ansible/receptor/pkg/logger"
	"verif/sim/simnet"
)

func quiet() {
	if os.Getenv("VERIF_LOG") != "" { // debugging: let the code under test log
		logger.SetGlobalLogLevel(logger.DebugLevel)
		return
	}
	logger.SetGlobalQuietMode()
}

func routeMsg(ru *simnet.RoutingUpdate) []byte {
	b, _ := json.Marshal(ru)
	return append([]byte{simnet.MsgRoute}, b...)
}

// quietNamed is quiet for checks that start the real runner binary: the daemon hands its log level to the runner by
// name, and "quiet" has no name, so these run at level "error" for the whole process (never toggled: the level is a
// plain global read by every goroutine of the code under test).
func quietNamed() {
	if os.Getenv("VERIF_LOG") != "" {
		logger.SetGlobalLogLevel(logger.DebugLevel)
		return
	}
	logger.SetGlobalLogLevel(logger.ErrorLevel)
}
