//go:build verif

package checks

import (
	"bytes"
	"encoding/json"
	"fmt"
	"os"
	"path/filepath"
	"sort"
	"strings"
	"sync"
	"testing"
	"time"

	"verif/sim/simnet"
	"verif/sim/simwork"
)

// Remote work: a controller node c0 submits a unit to an executing node x0 across the simulated mesh (real
// Workceptor, control service, Netceptor and QUIC on both, stub runner on x0).  Used by C05 (the locally stored
// output is always a prefix of the remote output and becomes equal to it, however often the connection breaks)
// and by C04 (the controller is killed and restarted on its data directory).

type remFault struct {
	AtMs  int    `json:"at_ms"`  // relative to the submit
	Kind  string `json:"kind"`   // cut | silent | crash-x | crash-r | crash-c
	DurMs int    `json:"dur_ms"` // outage length
	Step  int    `json:"step"`   // crash-c: at the n-th file step of the controller's incarnation (0: at AtMs)
}

type RemotePlan struct {
	Topo   string             `json:"topo"` // direct | relay | diamond
	Drop   float64            `json:"drop"`
	Dup    float64            `json:"dup"`
	JitUs  int                `json:"jit_us"`
	Stdin  int                `json:"stdin"`
	Runner simwork.RunnerPlan `json:"runner"`
	Faults []remFault         `json:"faults"`
	Reads  []c05Read          `json:"reads"`
}

func genRemote(r *simnet.Rng, mode string, tier string) *RemotePlan {
	p := &RemotePlan{}
	p.Topo = simnet.Pick(r, []string{"direct", "relay", "relay", "diamond"})
	p.Drop = simnet.Pick(r, []float64{0, 0, 0.01, 0.04})
	p.Dup = simnet.Pick(r, []float64{0, 0, 0.05})
	p.JitUs = simnet.Pick(r, []int{0, 300, 4000, 30000})
	p.Stdin = simnet.Pick(r, []int{0, 1, 100, 5000, 70000})
	rp := simwork.RunnerPlan{}
	nc := r.Range(1, 7)
	sizes := []int{1, 100, 4000, 4096, 20000, 65536, 120000}
	if tier == "thorough" {
		sizes = append(sizes, 400000)
	}
	dur := 0
	for i := 0; i < nc; i++ {
		rp.Chunks = append(rp.Chunks, simnet.Pick(r, sizes))
		ms := simnet.Pick(r, []int{0, 100, 700, 2000, 6000, 15000})
		rp.PauseMs = append(rp.PauseMs, ms)
		dur += ms
	}
	rp.ExitFail = r.Bool(0.2)
	rp.EndMs = simnet.Pick(r, []int{0, 300, 3000})
	dur += rp.EndMs
	p.Runner = rp
	nf := r.Range(1, 4)
	for i := 0; i < nf; i++ {
		f := remFault{AtMs: r.Range(0, dur+4000), DurMs: simnet.Pick(r, []int{200, 2000, 9000, 25000, 45000})}
		if mode == "c04" {
			f.Kind = simnet.Pick(r, []string{"crash-c", "crash-c", "cut"})
			if i == 0 {
				f.Kind = "crash-c"
			}
			if f.Kind == "crash-c" {
				f.DurMs = simnet.Pick(r, []int{0, 50, 2000, 20000})
				if r.Bool(0.6) {
					f.Step = r.Range(1, 40)
				}
			}
		} else {
			f.Kind = simnet.Pick(r, []string{"cut", "cut", "silent", "crash-x", "crash-r"})
		}
		p.Faults = append(p.Faults, f)
	}
	if mode == "c05" {
		total := rp.Total()
		for k := r.Range(0, 3); k > 0; k-- {
			rd := c05Read{AtMs: r.Range(0, dur+3000)}
			switch r.Intn(4) {
			case 0:
				rd.Offset = 0
			case 1:
				rd.Offset = -3
			case 2:
				rd.Offset = -2
			default:
				rd.Offset = r.Intn(total + 1)
			}
			p.Reads = append(p.Reads, rd)
		}
	}
	return p
}

type remStatus struct {
	State      int
	Detail     string
	StdoutSize int64
	WorkType   string
	ExtraData  struct {
		RemoteNode    string
		RemoteUnitID  string
		RemoteStarted bool
	}
}

func readRemStatus(path string) (remStatus, bool) {
	var s remStatus
	b := simwork.ReadRaw(path)
	// (first JSON value only: a writer killed between writing a shorter record and cutting the file to its length
	// leaves a tail behind, which the daemon's loader ignores as well)
	if len(b) == 0 || json.NewDecoder(bytes.NewReader(b)).Decode(&s) != nil {
		return s, false
	}
	return s, true
}

// runRemote executes the scenario; violations carry the prefix of the property on whose behalf it runs.
func runRemote(t *testing.T, p *RemotePlan, prop string, res *simnet.Result) {
	runDir := simwork.NewRunDir()
	defer simwork.RemoveRunDir(runDir)
	simnet.Bubble(t, func() {
		w := simnet.NewWorld(res.Seed)
		w.MsgBudget = 3000000
		ctl := simwork.NewStepCtl()
		defer ctl.Close()
		m := simnet.NewMesh(w)
		k := simnet.DefaultKnobs()
		k.ServiceAd = 0
		k.RouteUpdate = 5 * time.Second
		k.MaxIdle = 13 * time.Second
		ids := []string{"c0", "x0"}
		type lk struct {
			a, b  string
			costK int
		}
		var lks []lk
		switch p.Topo {
		case "relay":
			ids = append(ids, "r0")
			lks = []lk{{"c0", "r0", 1}, {"r0", "x0", 2}}
		case "diamond":
			ids = append(ids, "r0", "r1")
			lks = []lk{{"c0", "r0", 1}, {"r0", "x0", 2}, {"c0", "r1", 200}, {"r1", "x0", 300}}
		default:
			lks = []lk{{"c0", "x0", 1}}
		}
		for _, id := range ids {
			m.AddNode(id, k)
		}
		var links []*simnet.Link
		for i, l := range lks {
			name := fmt.Sprintf("L%d", i+1)
			cfg := simnet.LinkCfg{Name: name, Latency: time.Duration(500+simnet.H(res.Seed, "lat", name)%9000)*time.Microsecond + time.Duration(simnet.H(res.Seed, "latn", name)%977)*time.Nanosecond,
				Jitter: time.Duration(p.JitUs) * time.Microsecond, Drop: p.Drop, Dup: p.Dup}
			links = append(links, m.AddLink(cfg, l.a, l.b, simnet.DyadicCost(1, l.costK)))
		}
		cw := simwork.NewWorkNode(w, ctl, m.Nodes["c0"], runDir, nil)
		xw := simwork.NewWorkNode(w, ctl, m.Nodes["x0"], runDir, []simwork.WorkType{{Name: "echo", Cmd: "@stub"}})
		if err := cw.Start(); err != nil {
			res.Violate("harness", "start c0: %v", err)
			return
		}
		if err := xw.Start(); err != nil {
			res.Violate("harness", "start x0: %v", err)
			return
		}
		if err := xw.ServeMesh(); err != nil {
			res.Violate("harness", "serve: %v", err)
			return
		}
		for _, id := range ids[2:] {
			m.Nodes[id].Start()
		}
		for _, l := range links {
			_ = m.Up(l)
		}
		runners := simwork.NewRunners(w, ctl, xw, res.Seed, func(int) simwork.RunnerPlan { return p.Runner })
		// dialers redial
		stop := make(chan struct{})
		var mu sync.Mutex
		cut := map[*simnet.Link]bool{}
		down := map[string]bool{}
		go func() {
			for {
				select {
				case <-stop:
					return
				case <-time.After(700 * time.Millisecond):
				}
				for i, l := range links {
					mu.Lock()
					skip := cut[l] || down[lks[i].a] || down[lks[i].b]
					mu.Unlock()
					if !skip && !l.Up() {
						if m.Up(l) == nil {
							w.Count("fault_redial", 1)
						}
					}
				}
			}
		}()
		defer func() {
			close(stop)
			cw.Crash()
			xw.Crash()
			for _, n := range m.Nodes {
				n.Stop()
			}
			time.Sleep(35 * time.Second)
		}()
		deadline := w.Now() + 60*time.Second
		for w.Now() < deadline && (m.RoutePath("c0", "x0") == nil || m.RoutePath("x0", "c0") == nil) {
			time.Sleep(500 * time.Millisecond)
		}
		if m.RoutePath("c0", "x0") == nil {
			res.Add("probe_no_route_formed", 1)
			return
		}
		t0 := w.Now()
		var localStatus string // known once the submit has been acknowledged
		locStatus := func() string {
			mu.Lock()
			defer mu.Unlock()
			return localStatus
		}
		// ---- a fault placed inside the operation: the executing node goes quiet for a moment just as it starts
		// answering a results request (the answer line and the first output then reach the controller together)
		nres := 0
		ctl.Observe(func(kind, path string) {
			if kind != "results.stream" || !strings.Contains(path, "data-x0") {
				return
			}
			mu.Lock()
			nres++
			n := nres
			mu.Unlock()
			if simnet.H(res.Seed, "quiet-on-results", n)%3 != 0 {
				return
			}
			w.Count("fault_silent_on_results", 1)
			for _, l := range links {
				l.SetSilent(true, true)
			}
			d := time.Duration(300+simnet.H(res.Seed, "quiet-ms", n)%900) * time.Millisecond
			time.AfterFunc(d, func() {
				for _, l := range links {
					l.SetSilent(false, false)
				}
			})
		})
		// ---- ground truth recorded at protocol steps
		var savedID string // remote unit ID as durably recorded by the controller
		ctl.Observe(func(kind, path string) {
			if kind == "remote.id.saved" && strings.Contains(path, "data-c0") {
				if s, ok := readRemStatus(path); ok {
					mu.Lock()
					savedID = s.ExtraData.RemoteUnitID
					mu.Unlock()
				}
			}
		})
		// ---- faults
		var fwg sync.WaitGroup
		type crashInfo struct {
			started bool
			rid     string
		}
		var crashes []crashInfo
		faults := append([]remFault(nil), p.Faults...)
		sort.SliceStable(faults, func(i, j int) bool { return faults[i].AtMs < faults[j].AtMs })
		cSerial := make(chan struct{}, 1) // controller crashes one at a time (a channel: waiting on it is a durable block for the bubble)
		restartC := func(f remFault) {
			// what the dead controller left on disk decides what must happen next
			s, _ := readRemStatus(locStatus())
			mu.Lock()
			crashes = append(crashes, crashInfo{started: s.ExtraData.RemoteStarted, rid: s.ExtraData.RemoteUnitID})
			mu.Unlock()
			time.Sleep(time.Duration(f.DurMs)*time.Millisecond + 50*time.Microsecond)
			mu.Lock()
			delete(down, "c0")
			mu.Unlock()
			if err := cw.Start(); err != nil {
				mu.Lock()
				res.Violate(prop+":restart-failed", "controller restart: %v", err)
				mu.Unlock()
			}
			w.Count("restarts", 1)
		}
		for fi, f := range faults {
			fwg.Add(1)
			go func(fi int, f remFault) {
				defer fwg.Done()
				w.SleepUntil(t0 + time.Duration(f.AtMs)*time.Millisecond + time.Duration(fi)*time.Microsecond)
				switch f.Kind {
				case "cut", "silent":
					var sel []*simnet.Link
					for i, l := range links {
						if p.Topo != "diamond" || simnet.H(res.Seed, "cutsel", fi, i)%2 == 0 || i < 2 {
							sel = append(sel, l)
						}
					}
					mu.Lock()
					for _, l := range sel {
						if f.Kind == "cut" {
							cut[l] = true
						}
					}
					mu.Unlock()
					for _, l := range sel {
						if f.Kind == "cut" {
							l.Cut()
						} else {
							l.SetSilent(true, true)
						}
					}
					w.Count("fault_"+f.Kind, 1)
					time.Sleep(time.Duration(f.DurMs) * time.Millisecond)
					mu.Lock()
					for _, l := range sel {
						delete(cut, l)
					}
					mu.Unlock()
					for _, l := range sel {
						l.SetSilent(false, false)
					}
				case "crash-x":
					// only once the remote unit has been started (a crash of the executing node during its own submit is C04's business there)
					if s, ok := readRemStatus(locStatus()); !ok || !s.ExtraData.RemoteStarted {
						w.Count("probe_crash_x_skipped", 1)
						return
					}
					mu.Lock()
					down["x0"] = true
					mu.Unlock()
					simnet.Quiesce()
					xw.Crash()
					w.Count("fault_crash_executor", 1)
					time.Sleep(time.Duration(f.DurMs) * time.Millisecond)
					mu.Lock()
					delete(down, "x0")
					mu.Unlock()
					if err := xw.Start(); err != nil {
						mu.Lock()
						res.Violate("harness", "restart x0: %v", err)
						mu.Unlock()
						return
					}
					_ = xw.ServeMesh()
				case "crash-r":
					if len(ids) < 3 {
						return
					}
					r := m.Nodes["r0"]
					mu.Lock()
					down["r0"] = true
					mu.Unlock()
					r.Stop()
					w.Count("fault_crash_relay", 1)
					time.Sleep(time.Duration(f.DurMs) * time.Millisecond)
					r.Start()
					mu.Lock()
					delete(down, "r0")
					mu.Unlock()
				case "crash-c":
					cSerial <- struct{}{}
					defer func() { <-cSerial }()
					if !cw.Up() {
						return
					}
					if f.Step > 0 {
						fired := make(chan struct{})
						ctl.CrashAt(fmt.Sprintf("crash-c-%d", fi), cw.Alias()+"/", "", f.Step, func() {
							go func() {
								mu.Lock()
								down["c0"] = true
								mu.Unlock()
								cw.Crash()
								close(fired)
							}()
						})
						select {
						case <-fired:
							w.Count("fault_crash_controller_at_step", 1)
						case <-time.After(120 * time.Second):
							// the controller never took that many steps: crash it now
							mu.Lock()
							down["c0"] = true
							mu.Unlock()
							simnet.Quiesce()
							cw.Crash()
							w.Count("fault_crash_controller_quiescent", 1)
						}
					} else {
						mu.Lock()
						down["c0"] = true
						mu.Unlock()
						simnet.Quiesce()
						cw.Crash()
						w.Count("fault_crash_controller_quiescent", 1)
					}
					restartC(f)
				}
			}(fi, f)
		}
		// ---- submit (faults may strike while it is in progress)
		stdin := simnet.NewRng(res.Seed, "stdin").Bytes(p.Stdin)
		cl := cw.Session("unix")
		_, _ = cl.Hello()
		unit, ack, final, err := cl.Submit("work submit x0 echo", stdin, 60*time.Second)
		cl.Close()
		if unit == "" {
			mu.Lock()
			nCrashes := len(crashes)
			mu.Unlock()
			if nCrashes > 0 || !cw.Up() {
				res.Add("probe_submit_not_acknowledged_crash", 1)
				fwg.Wait()
				return
			}
			res.Violate(prop+":remote-submit-failed", "ack=%q final=%q err=%v", ack, final, err)
			fwg.Wait()
			return
		}
		// the submitter may have been told that the start failed (e.g. the connection broke while the input was
		// being sent): such a unit was never started and nothing has to be followed
		submitFailed := strings.HasPrefix(final, "ERROR")
		if os.Getenv("VERIF_DEBUG") != "" {
			fmt.Fprintf(os.Stderr, "submit: unit=%q ack=%q final=%q err=%v\n", unit, ack, final, err)
		}
		mu.Lock()
		localStatus = filepath.Join(cw.UnitDirReal(unit), "status")
		mu.Unlock()
		localOut := filepath.Join(cw.UnitDirReal(unit), "stdout")
		// ---- continuous oracle: local output is a prefix of the remote output, and never shrinks
		var lastRID string
		lastLen, polls := int64(-1), 0
		var lastSize int64
		violated := false
		checkPrefix := func(full bool) {
			if s, ok := readRemStatus(localStatus); ok && s.ExtraData.RemoteUnitID != "" {
				lastRID = s.ExtraData.RemoteUnitID
			}
			fi, err := os.Stat(localOut)
			if err != nil {
				return
			}
			if fi.Size() < lastSize && !violated {
				violated = true
				res.Violate(prop+":remote-local-output-shrank", "local copy of the output went from %d to %d bytes", lastSize, fi.Size())
			}
			lastSize = fi.Size()
			polls++
			if !full && fi.Size() == lastLen && polls%16 != 0 {
				return
			}
			lastLen = fi.Size()
			loc := simwork.ReadRaw(localOut)
			if len(loc) == 0 {
				return
			}
			if lastRID == "" {
				if !violated {
					violated = true
					res.Violate(prop+":remote-output-without-remote-unit", "%d bytes of local output while no remote unit is recorded", len(loc))
				}
				return
			}
			rem := simwork.ReadRaw(filepath.Join(xw.UnitDirReal(lastRID), "stdout"))
			if (len(loc) > len(rem) || !bytes.Equal(loc, rem[:len(loc)])) && !violated {
				violated = true
				i := 0
				for i < len(loc) && i < len(rem) && loc[i] == rem[i] {
					i++
				}
				res.Violate(prop+":remote-not-prefix", "at %v the local copy (%d bytes) is not a prefix of the remote output (%d bytes): first difference at offset %d",
					w.Now(), len(loc), len(rem), i)
			}
			res.Add("prefix_checks", 1)
		}
		pollStop := make(chan struct{})
		pollDone := make(chan struct{})
		go func() {
			defer close(pollDone)
			for {
				select {
				case <-pollStop:
					return
				case <-time.After(41 * time.Millisecond):
					mu.Lock()
					checkPrefix(false)
					mu.Unlock()
				}
			}
		}()
		// ---- clients reading the results from the controller while all this goes on (C05)
		var rwg sync.WaitGroup
		total := p.Runner.Total()
		for ri, rd := range p.Reads {
			rwg.Add(1)
			go func(ri int, rd c05Read) {
				defer rwg.Done()
				w.SleepUntil(t0 + time.Duration(rd.AtMs)*time.Millisecond + time.Duration(ri+7)*time.Microsecond)
				if !cw.Up() {
					return
				}
				off := c05Offset(rd.Offset, total)
				c := cw.Session("unix")
				defer c.Close()
				_, _ = c.Hello()
				hdr, err := c.Cmd(fmt.Sprintf("work results %s %d", unit, off), 30*time.Second)
				if err != nil || !strings.HasPrefix(hdr, "Streaming results for work unit "+unit) {
					if cw.Up() {
						mu.Lock()
						res.Violate(prop+":remote-no-stream", "read %d (offset %d): header %q err %v", ri, off, hdr, err)
						mu.Unlock()
					}
					return
				}
				data, err := c.ReadAll(900 * time.Second)
				endAt := w.Now()
				mu.Lock()
				defer mu.Unlock()
				rid := lastRID
				st := runners.State(rid)
				res.Add("streams_read", 1)
				if st == nil {
					res.Add("probe_stream_without_remote_unit", 1)
					return
				}
				want := st.Out[off:]
				if err != nil {
					res.Violate(prop+":remote-stream-not-ending", "offset %d: stream from the controller did not end within 900 s, got %d of %d bytes (err %v)", off, len(data), len(want), err)
					return
				}
				if ls, ok := readRemStatus(localStatus); ok && ls.State == 3 {
					// the unit failed locally (e.g. it could not be started): the stream ends with what there is
					if len(data) <= len(want) && bytes.Equal(data, want[:len(data)]) {
						return
					}
				}
				if !bytes.Equal(data, want) {
					sig := prop + ":remote-wrong-bytes"
					if len(data) < len(want) && bytes.Equal(data, want[:len(data)]) {
						sig = prop + ":remote-ended-early"
					}
					res.Violate(sig, "offset %d asked at +%d ms: got %d bytes, want %d (stream ended at %v, runner done=%v at %v)", off, rd.AtMs, len(data), len(want), endAt, st.Done, st.DoneAt)
				}
			}(ri, rd)
		}
		fwg.Wait()
		// ---- faults are over: everything heals, and the unit must be followed to its end
		for _, l := range links {
			l.Calm()
		}
		res.Add("probe_faults_over", 1)
		mu.Lock()
		lastCrash := crashInfo{started: true}
		if len(crashes) > 0 {
			lastCrash = crashes[len(crashes)-1]
		}
		mu.Unlock()
		settle := w.Now() + 400*time.Second
		converged := false
		var ls remStatus
		for w.Now() < settle {
			time.Sleep(500 * time.Millisecond)
			var ok bool
			ls, ok = readRemStatus(localStatus)
			if os.Getenv("VERIF_DEBUG") != "" {
				fmt.Fprintf(os.Stderr, "settle %v ok=%v %+v up=%v\n", w.Now(), ok, ls, cw.Up())
			}
			if !ok {
				continue
			}
			if submitFailed && !ls.ExtraData.RemoteStarted && w.Now() > settle-300*time.Second {
				res.Add("probe_submit_reported_failed", 1)
				converged = true
				break
			}
			if !ls.ExtraData.RemoteStarted && ls.ExtraData.RemoteUnitID != "" && ls.State == 0 && len(crashes) == 0 && w.Now() > settle-100*time.Second {
				// the start (in the background, after "Job Submitted") got as far as allocating the remote unit and then
				// lost its connection while sending the input: the code gives up without retrying and the unit stays
				// pending until the next restart marks it failed.  No listed property promises more; counted, not flagged.
				res.Add("probe_background_start_gave_up", 1)
				converged = true
				break
			}
			if ls.State == 2 || ls.State == 3 {
				fi, err := os.Stat(localOut)
				var sz int64
				if err == nil {
					sz = fi.Size()
				}
				if ls.State == 3 && !ls.ExtraData.RemoteStarted {
					converged = true // failed without ever having been started remotely
					break
				}
				if st := runners.State(ls.ExtraData.RemoteUnitID); st != nil && st.Done && sz >= int64(len(st.Out)) && ls.StdoutSize == int64(len(st.Out)) {
					converged = true
					break
				}
				if strings.Contains(ls.Detail, "Remote work unit is gone") || strings.Contains(ls.Detail, "Failed to restart") {
					converged = true
					break
				}
			}
		}
		rwg.Wait()
		close(pollStop)
		<-pollDone
		// (from here on nothing else touches the result; the lock must not be held across waits in simulated time)
		mu.Lock()
		checkPrefix(true)
		mu.Unlock()
		res.SimSeconds = w.Now().Seconds()
		res.LogHash, res.LogLines = w.CanonicalLogHash()
		res.Merge(w.Stats())
		res.Merge(ctl.Stats())
		res.Class = fmt.Sprintf("remote topo=%s lossy=%v faults=%d total=%d", p.Topo, p.Drop > 0 || p.Dup > 0, len(p.Faults), bucket(total))
		if len(res.Violations) > 0 {
			return
		}
		rst := runners.State(ls.ExtraData.RemoteUnitID)
		if !converged {
			rdone := rst != nil && rst.Done
			raw := simwork.ReadRaw(localStatus)
			if len(raw) > 400 {
				raw = raw[:400]
			}
			res.Violate(prop+":remote-not-followed", "400 s after the last fault the local unit is in state %d (%q, size %d, local output %d bytes, remote started=%v) while the remote unit %q finished=%v with %d bytes; record: %q",
				ls.State, ls.Detail, ls.StdoutSize, lastSize, ls.ExtraData.RemoteStarted, ls.ExtraData.RemoteUnitID, rdone, total, raw)
			return
		}
		// identity survives (C04)
		if !ls.ExtraData.RemoteStarted && ls.State == 0 && len(crashes) == 0 {
			return
		}
		if ls.WorkType != "remote" || ls.ExtraData.RemoteNode != "x0" {
			res.Violate(prop+":remote-identity-lost", "local record says work type %q, remote node %q", ls.WorkType, ls.ExtraData.RemoteNode)
		}
		if savedID != "" && ls.ExtraData.RemoteUnitID != savedID && lastCrash.rid == savedID {
			res.Violate(prop+":remote-binding-lost", "the controller had recorded remote unit %s; after restart it is bound to %q", savedID, ls.ExtraData.RemoteUnitID)
		}
		if len(crashes) > 0 {
			res.Add("probe_restart_started_"+fmt.Sprint(lastCrash.started), 1)
			if !lastCrash.started && ls.State != 3 {
				res.Violate(prop+":remote-never-started-not-failed", "the controller died before the remote start was recorded, yet after restart the unit is in state %d (%q)", ls.State, ls.Detail)
			}
		}
		if ls.ExtraData.RemoteStarted && rst != nil && rst.Done && !strings.Contains(ls.Detail, "Failed to restart") {
			// final state, size and bytes equal the remote unit's
			wantState := 2
			if rst.Failed {
				wantState = 3
			}
			loc := simwork.ReadRaw(localOut)
			if ls.State != wantState || ls.StdoutSize != int64(len(rst.Out)) {
				res.Violate(prop+":remote-outcome-differs", "local record: state %d size %d; remote unit: state %d size %d", ls.State, ls.StdoutSize, wantState, len(rst.Out))
			} else if !bytes.Equal(loc, rst.Out) {
				res.Violate(prop+":remote-output-differs", "local copy has %d bytes, remote output %d bytes, contents differ or incomplete", len(loc), len(rst.Out))
			} else {
				res.Add("remote_units_completed", 1)
				// and it can be fetched from the controller
				off := int(simnet.H(res.Seed, "finaloff") % uint64(len(rst.Out)+1))
				c := cw.Session("unix")
				_, _ = c.Hello()
				hdr, err := c.Cmd(fmt.Sprintf("work results %s %d", unit, off), 30*time.Second)
				if err != nil || !strings.HasPrefix(hdr, "Streaming") {
					res.Violate(prop+":remote-no-stream", "final read: header %q err %v", hdr, err)
				} else if data, err := c.ReadAll(60 * time.Second); err != nil || !bytes.Equal(data, rst.Out[off:]) {
					res.Violate(prop+":remote-final-read-wrong", "final read from offset %d: %d bytes (want %d), err %v", off, len(data), len(rst.Out)-off, err)
				}
				c.Close()
			}
		}
	})
}
