//go:build !verif

package checks

import "time"

type yieldVisit struct {
	Kind, Key string
	At        time.Time
}

func yieldVisits() []yieldVisit { return nil }

func installYields(uint64, float64, ...string) func() { return func() {} }

func setYieldAction(string, func(string)) {}

func installLockNoise(uint64, float64) func() { return func() {} }
