//go:build verif

package checks

import (
	"context"
	"fmt"
	"io"
	"net"
	"runtime"
	"sort"
	"strings"
	"sync"
	"testing"
	"time"

	"github.com/ansible/receptor/pkg/netceptor"
	"verif/sim/simnet"
)

// C17 — sockets, listeners and streams close at any time without crash or leak.

type c17Op struct {
	Kind  string `json:"kind"`
	Node  int    `json:"node"`
	Obj   int    `json:"obj"` // which earlier object (mod)
	N     int    `json:"n,omitempty"`
	GapMs int    `json:"gap_ms"`
}

type C17Plan struct {
	Ops      []c17Op `json:"ops"`
	Shutdown bool    `json:"shutdown"` // finish with Shutdown of both nodes instead of closing everything first
	// sockets opened (and closed again) by that many application goroutines at the very time of the shutdown
	OpenAtShutdown int      `json:"open_at_shutdown"`
	Shrink         []string `json:"_shrink"`
}

var c17Kinds = []string{"lp", "lpa", "ls", "lsa", "send", "burst-close", "dial", "dial-cancel", "dial-unbound", "ping", "ping-unknown", "close", "close", "close2", "conn-close", "conn-closeconn", "accept-close"}

func genC17(seed uint64, tier string) any {
	r := simnet.NewRng(seed, "c17")
	p := &C17Plan{Shrink: []string{"ops"}, Shutdown: r.Bool(0.4)}
	if p.Shutdown && r.Bool(0.6) {
		p.OpenAtShutdown = r.Range(1, 6)
	}
	n := r.Range(5, 16)
	if tier == "thorough" {
		n = r.Range(8, 40)
	}
	for i := 0; i < n; i++ {
		p.Ops = append(p.Ops, c17Op{Kind: simnet.Pick(r, c17Kinds), Node: r.Intn(2), Obj: r.Intn(8), N: r.Range(2, 5), GapMs: simnet.Pick(r, []int{0, 1, 20, 200, 1000})})
	}
	return p
}

type c17Obj struct {
	node   int
	svc    string
	pc     netceptor.PacketConner
	li     *netceptor.Listener
	closed int
	adv    bool
}

// c17Goroutines counts goroutines of the code under test (receptor and quic-go frames) that are alive in the bubble.
func c17Goroutines() (int, map[string]int) {
	buf := make([]byte, 8<<20)
	n := runtime.Stack(buf, true)
	total := 0
	by := map[string]int{}
	for _, g := range strings.Split(string(buf[:n]), "\n\n") {
		if !strings.Contains(g, "synctest bubble") {
			continue
		}
		if !strings.Contains(g, "github.com/ansible/receptor/pkg/") && !strings.Contains(g, "quic-go") {
			continue
		}
		if strings.Contains(g, "verif/sim/checks.c17Goroutines") {
			continue // the caller itself
		}
		// goroutines started by the harness (readers, acceptors, dialers) are the application's, not the node's
		if strings.Contains(g, "created by verif/sim/") {
			continue
		}
		total++
		lines := strings.Split(g, "\n")
		site := ""
		for i := len(lines) - 1; i >= 0; i-- {
			if strings.HasPrefix(lines[i], "created by ") {
				site = strings.TrimPrefix(lines[i], "created by ")
				if j := strings.Index(site, " in goroutine"); j > 0 {
					site = site[:j]
				}
				break
			}
		}
		by[site]++
	}
	return total, by
}

func runC17(t *testing.T, planAny any, res *simnet.Result) {
	p := planAny.(*C17Plan)
	simnet.Bubble(t, func() {
		w := simnet.NewWorld(res.Seed)
		defer installYields(res.Seed, 0.5, "deliver")()
		m := simnet.NewMesh(w)
		k := simnet.DefaultKnobs()
		k.ServiceAd = 5 * time.Second
		k.RouteUpdate = 5 * time.Second
		k.MaxIdle = 13 * time.Second
		ids := []string{"a", "b"}
		for _, id := range ids {
			m.AddNode(id, k)
		}
		l := m.AddLink(simnet.LinkCfg{Name: "L1", Latency: 2*time.Millisecond + 31*time.Nanosecond, FIFO: true}, "a", "b", 1)
		_ = m.Up(l)
		time.Sleep(3 * time.Second)
		simnet.Quiesce()
		base, baseBy := c17Goroutines()
		var mu sync.Mutex
		var objs []*c17Obj
		var conns []net.Conn
		svcN := 0
		kinds := map[string]bool{}
		pickObj := func(i int, wantListener bool) *c17Obj {
			mu.Lock()
			defer mu.Unlock()
			var c []*c17Obj
			for _, o := range objs {
				if wantListener == (o.li != nil) {
					c = append(c, o)
				}
			}
			if len(c) == 0 {
				return nil
			}
			return c[i%len(c)]
		}
		anyObj := func(i int) *c17Obj {
			mu.Lock()
			defer mu.Unlock()
			if len(objs) == 0 {
				return nil
			}
			return objs[i%len(objs)]
		}
		var wg sync.WaitGroup
		for _, op := range p.Ops {
			time.Sleep(time.Duration(op.GapMs)*time.Millisecond + 13*time.Microsecond)
			kinds[op.Kind] = true
			node := m.Nodes[ids[op.Node%2]]
			other := m.Nodes[ids[(op.Node+1)%2]]
			switch op.Kind {
			case "lp", "lpa":
				svcN++
				svc := fmt.Sprintf("s%d", svcN)
				var pc netceptor.PacketConner
				var err error
				if op.Kind == "lpa" {
					pc, err = node.Net().ListenPacketAndAdvertise(svc, map[string]string{"k": "v"})
				} else {
					pc, err = node.Net().ListenPacket(svc)
				}
				if err != nil {
					continue
				}
				o := &c17Obj{node: op.Node % 2, svc: svc, pc: pc, adv: op.Kind == "lpa"}
				mu.Lock()
				objs = append(objs, o)
				mu.Unlock()
				// half of the sockets have a reader, the others let deliveries queue up behind the unbuffered channel
				if op.N%2 == 0 {
					go func() {
						buf := make([]byte, 100)
						for {
							if _, _, err := pc.ReadFrom(buf); err != nil {
								return
							}
						}
					}()
				}
			case "ls", "lsa":
				svcN++
				svc := fmt.Sprintf("t%d", svcN)
				var li *netceptor.Listener
				var err error
				if op.Kind == "lsa" {
					li, err = node.Net().ListenAndAdvertise(svc, nil, map[string]string{"k": "v"})
				} else {
					li, err = node.Net().Listen(svc, nil)
				}
				if err != nil {
					continue
				}
				o := &c17Obj{node: op.Node % 2, svc: svc, li: li, adv: op.Kind == "lsa"}
				mu.Lock()
				objs = append(objs, o)
				mu.Unlock()
				go func() {
					for {
						c, err := li.Accept()
						if err != nil {
							return
						}
						go func() {
							_, _ = io.Copy(c, c) // echo until the dialer closes
							_ = c.Close()
						}()
					}
				}()
			case "send":
				if o := pickObj(op.Obj, false); o != nil {
					pc, err := m.Nodes[ids[(o.node+1)%2]].Net().ListenPacket("")
					if err == nil {
						_, _ = pc.WriteTo([]byte("x"), other.Net().NewAddr(ids[o.node], o.svc))
						time.Sleep(20 * time.Millisecond)
						_ = pc.Close()
					}
				}
			case "burst-close":
				// several senders in flight towards a socket at the instant it is closed
				if o := pickObj(op.Obj, false); o != nil {
					sender := m.Nodes[ids[(o.node+1)%2]]
					pc, err := sender.Net().ListenPacket("")
					if err != nil {
						continue
					}
					for i := 0; i < op.N; i++ {
						_, _ = pc.WriteTo([]byte(fmt.Sprintf("b%d", i)), sender.Net().NewAddr(ids[o.node], o.svc))
					}
					// deliveries from different sources run on different goroutines: add senders on the target node itself
					owner := m.Nodes[ids[o.node]]
					for i := 0; i < op.N; i++ {
						go func(i int) {
							lpc, err := owner.Net().ListenPacket("")
							if err != nil {
								return
							}
							_, _ = lpc.WriteTo([]byte(fmt.Sprintf("l%d", i)), owner.Net().NewAddr(ids[o.node], o.svc))
							_ = lpc.Close()
						}(i)
					}
					// the packets arrive after the link latency; close lands inside the delivery window
					time.Sleep(2*time.Millisecond + time.Duration(op.N*37)*time.Microsecond)
					_ = o.pc.Close()
					o.closed++
					res.Add("probe_close_during_delivery", 1)
					time.Sleep(30 * time.Millisecond)
					_ = pc.Close()
				}
			case "dial", "conn-close", "conn-closeconn":
				if o := pickObj(op.Obj, true); o != nil {
					wg.Add(1)
					go func(o *c17Obj, kind string) {
						defer wg.Done()
						ctx, cancel := context.WithTimeout(context.Background(), 20*time.Second)
						defer cancel()
						c, err := m.Nodes[ids[(o.node+1)%2]].Net().DialContext(ctx, ids[o.node], o.svc, nil)
						if err != nil {
							return
						}
						_, _ = c.Write([]byte("hello"))
						buf := make([]byte, 16)
						_ = c.SetReadDeadline(time.Now().Add(3 * time.Second))
						_, _ = c.Read(buf)
						switch kind {
						case "conn-close":
							_ = c.Close()
							_ = c.Close()
							_ = c.CloseConnection()
						case "conn-closeconn":
							_ = c.CloseConnection()
							_ = c.CloseConnection()
						default:
							_ = c.Close()
							mu.Lock()
							conns = append(conns, c)
							mu.Unlock()
						}
					}(o, op.Kind)
				}
			case "dial-cancel":
				if o := pickObj(op.Obj, true); o != nil {
					wg.Add(1)
					go func(o *c17Obj, n int) {
						defer wg.Done()
						ctx, cancel := context.WithTimeout(context.Background(), time.Duration(n)*time.Millisecond)
						defer cancel()
						c, err := m.Nodes[ids[(o.node+1)%2]].Net().DialContext(ctx, ids[o.node], o.svc, nil)
						if err == nil {
							_ = c.CloseConnection()
						}
					}(o, op.N)
				}
			case "dial-unbound":
				wg.Add(1)
				go func() {
					defer wg.Done()
					ctx, cancel := context.WithTimeout(context.Background(), 20*time.Second)
					defer cancel()
					c, err := node.Net().DialContext(ctx, other.ID, "nosvc", nil)
					if err == nil {
						_ = c.CloseConnection()
					}
				}()
			case "ping", "ping-unknown":
				target := other.ID
				if op.Kind == "ping-unknown" {
					target = "nowhere"
				}
				wg.Add(1)
				go func() {
					defer wg.Done()
					ctx, cancel := context.WithTimeout(context.Background(), 12*time.Second)
					defer cancel()
					_, _, _ = node.Net().Ping(ctx, target, 5)
				}()
			case "close", "close2", "accept-close":
				o := anyObj(op.Obj)
				if o == nil {
					continue
				}
				times := 1
				if op.Kind == "close2" {
					times = 2
				}
				for i := 0; i < times; i++ {
					if o.li != nil {
						_ = o.li.Close()
					} else {
						_ = o.pc.Close()
					}
					o.closed++
				}
				if times == 2 {
					res.Add("probe_double_close", 1)
				}
			}
		}
		wg.Wait()
		time.Sleep(time.Second)
		if p.Shutdown {
			// applications keep opening and closing sockets while the node is being shut down
			var lw sync.WaitGroup
			for i := 0; i < p.OpenAtShutdown; i++ {
				lw.Add(1)
				go func(i int) {
					defer lw.Done()
					nc := m.Nodes[ids[i%len(ids)]].Net()
					for k := 0; k < 3; k++ {
						if pc, err := nc.ListenPacket(fmt.Sprintf("x%d_%d", i, k)); err == nil {
							_ = pc.Close()
						}
						time.Sleep(time.Duration(simnet.H(res.Seed, "open-at-shutdown", i, k)%3) * time.Microsecond)
					}
				}(i)
			}
			for _, id := range ids {
				m.Nodes[id].Stop()
			}
			lw.Wait()
			res.Add("probe_shutdown_with_open_objects", 1)
		} else {
			mu.Lock()
			for _, o := range objs {
				if o.li != nil {
					_ = o.li.Close()
				} else {
					_ = o.pc.Close()
				}
			}
			for _, c := range conns {
				if cc, ok := c.(*netceptor.Conn); ok {
					_ = cc.CloseConnection()
				}
			}
			mu.Unlock()
		}
		// settle: QUIC idle timeout (30 s) plus draining
		time.Sleep(50 * time.Second)
		simnet.Quiesce()
		if !p.Shutdown {
			for _, id := range ids {
				nc := m.Nodes[id].Net()
				nc.GetListenerLock().RLock()
				var left []string
				for svc := range nc.GetListenerRegistry() {
					left = append(left, svc)
				}
				nc.GetListenerLock().RUnlock()
				sort.Strings(left)
				if len(left) > 0 {
					res.Violate("c17:service-name-leaked", "after everything was closed node %s still has %d service names registered: %v", id, len(left), left)
				}
			}
			after, afterBy := c17Goroutines()
			if after > base {
				var grown []string
				for site, c := range afterBy {
					if c > baseBy[site] {
						grown = append(grown, fmt.Sprintf("%s +%d", site, c-baseBy[site]))
					}
				}
				sort.Strings(grown)
				res.Violate("c17:goroutine-leak", "after everything was closed and 50 s had passed %d goroutines of the code under test remain (baseline %d): %v", after, base, grown)
			}
			for _, n := range m.Nodes {
				n.Stop()
			}
			time.Sleep(5 * time.Second)
			simnet.Quiesce()
		}
		// Shutting a node down stops all of its background activity
		left, leftBy := c17Goroutines()
		if left > 0 {
			var sites []string
			for site, c := range leftBy {
				sites = append(sites, fmt.Sprintf("%s x%d", site, c))
			}
			sort.Strings(sites)
			res.Violate("c17:activity-after-shutdown", "%d goroutines of the code under test are still alive after both nodes were shut down: %v", left, sites)
		}
		mark := w.WireLen()
		time.Sleep(20 * time.Second)
		if w.WireLen() > mark {
			res.Violate("c17:traffic-after-shutdown", "%d messages were sent after both nodes had been shut down", w.WireLen()-mark)
		}
		res.SimSeconds = w.Now().Seconds()
		res.LogHash, res.LogLines = w.CanonicalLogHash()
		res.Merge(w.Stats())
		res.Class = fmt.Sprintf("shutdown=%v kinds=%s", p.Shutdown, strings.Join(simnet.SortedKeys(kinds), "+"))
	})
}

func TestC17(t *testing.T) {
	quiet()
	simnet.RunCheck(t, simnet.Check{ID: "C17", Gen: genC17, NewPlan: func() any { return &C17Plan{} }, Run: runC17})
}
