//go:build verif

package checks

import (
	"strings"
	"sync"
	"syscall"
	"time"

	"github.com/ansible/receptor/pkg/verifhook"
	"verif/sim/simnet"
)

// installYields turns the Yield points of the network code into seeded pauses
// on the simulated clock: with probability p a goroutine reaching a yield point
// sleeps for 1 µs – 3 ms of simulated time, which lets events scheduled inside
// that window overtake it.  Which visits pause, and for how long, is a hash of
// (seed, kind, key, visit number of that kind and key).  No call site holds a
// mutex, so a pausing goroutine never blocks another one non-durably.
// yieldVisit is one recorded visit of a yield point.
type yieldVisit struct {
	Kind, Key string
	At        time.Time
}

var (
	yieldMu  sync.Mutex
	yieldLog []yieldVisit
	yieldAct map[string]func(key string)
)

// setYieldAction makes the goroutine that reaches a yield point of the given kind run fn there (after
// installYields): the simulator's way of placing another activity exactly inside that window.
func setYieldAction(kind string, fn func(key string)) {
	yieldMu.Lock()
	if yieldAct == nil {
		yieldAct = map[string]func(string){}
	}
	yieldAct[kind] = fn
	yieldMu.Unlock()
}

// yieldVisits returns the visits recorded since the last installYields.
func yieldVisits() []yieldVisit {
	yieldMu.Lock()
	defer yieldMu.Unlock()
	return append([]yieldVisit(nil), yieldLog...)
}

func installYields(seed uint64, p float64, kinds ...string) func() {
	var mu sync.Mutex
	visits := map[string]int{}
	yieldMu.Lock()
	yieldLog = nil
	yieldAct = nil
	yieldMu.Unlock()
	want := map[string]bool{}
	for _, k := range kinds {
		want[k] = true
	}
	verifhook.SetYieldHandler(func(kind, key string) {
		yieldMu.Lock()
		if kind != "lock" {
			yieldLog = append(yieldLog, yieldVisit{kind, key, time.Now()})
		}
		act := yieldAct[kind]
		yieldMu.Unlock()
		if act != nil {
			act(key)
		}
		if kind == "lock" {
			return // never a simulated-time pause at a lock site
		}
		if len(want) > 0 && !want[kind] {
			return
		}
		// (update IDs are random per process: the decision is keyed by node and neighbour only)
		ck := key
		if kind == "route.seen" || kind == "route.relay" {
			if i := strings.LastIndex(key, "|"); i > 0 {
				ck = key[:i]
			}
		}
		mu.Lock()
		visits[kind+"\x00"+ck]++
		n := visits[kind+"\x00"+ck]
		mu.Unlock()
		h := simnet.H(seed, "yield", kind, ck, n)
		if simnet.Unit(h) >= p {
			return
		}
		d := time.Duration(1+simnet.H(seed, "yieldd", kind, ck, n)%3000) * time.Microsecond
		time.Sleep(d)
	})
	return func() { verifhook.SetYieldHandler(nil) }
}

// installLockNoise holds goroutines back, in real time, at the yield points the build inserts before every
// Lock()/RLock() of the network package: with probability p (a hash of seed, site and visit number) the goroutine
// pauses 50-400 us before taking the lock.  Real time, never simulated time - the goroutine may already hold
// another lock, and a goroutine sleeping on the simulated clock with a lock held would stop the clock for good.
// It widens, inside one instant of simulated time, the windows between a goroutine's lock acquisitions.
func installLockNoise(seed uint64, p float64) func() {
	var mu sync.Mutex
	visits := map[string]int{}
	setYieldAction("lock", func(site string) {
		mu.Lock()
		visits[site]++
		n := visits[site]
		mu.Unlock()
		if simnet.Unit(simnet.H(seed, "locknoise", site, n)) >= p {
			return
		}
		ts := syscall.Timespec{Nsec: int64(50_000 + simnet.H(seed, "locknoise-d", site, n)%350_000)}
		_ = syscall.Nanosleep(&ts, nil)
	})
	return func() { setYieldAction("lock", nil) }
}
