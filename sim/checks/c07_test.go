package checks

import (
	"context"
	"encoding/json"
	"fmt"
	"os"
	"strings"
	"sync"
	"testing"
	"time"

	"verif/sim/simnet"
)

// C07 — no bytes from a backend peer can crash or wedge a node.

type c07Input struct {
	T    string `json:"t"`    // dgram | framed
	Pre  bool   `json:"pre"`  // before the handshake (fresh session)
	Kind string `json:"kind"` // see render
	A    int    `json:"a,omitempty"`
	B    int    `json:"b,omitempty"`
	S    string `json:"s,omitempty"`
}

type C07Plan struct {
	Coincide int        `json:"coincide"` // rounds of the three-way coincidence phase
	LateJoin bool       `json:"late_join"`
	Inputs   []c07Input `json:"inputs"`
	Shrink   []string   `json:"_shrink"`
}

var c07JSONValues = []string{`null`, `0`, `-1`, `1e308`, `1.5`, `"x"`, `""`, `[]`, `{}`, `true`, `[1,2]`, `{"a":{"b":[]}}`, `18446744073709551616`, `"\ud800"`, `[null]`}

var c07RouteFields = []string{"NodeID", "UpdateID", "UpdateEpoch", "UpdateSequence", "Connections", "ForwardingNode", "SuspectedDuplicate"}
var c07AdFields = []string{"NodeID", "Service", "Time", "ConnType", "Tags", "WorkCommands", "Cancel"}

var c07Kinds = []string{"empty", "onebyte", "random", "route-body", "ad-body", "route-field", "ad-field", "route-absurd", "ad-absurd",
	"data-short", "data-hdr", "data-reserved", "data-big", "reject", "unknown-type", "frame-raw", "ad-cancel-unknown", "route-dupkeys", "deep-json", "ad-empty-obj", "route-negcost", "hello-impersonate", "hello-impersonate"}

func genC07(seed uint64, tier string) any {
	r := simnet.NewRng(seed, "c07")
	p := &C07Plan{Shrink: []string{"inputs"}}
	n := r.Range(4, 16)
	if tier == "thorough" {
		n = r.Range(8, 40)
	}
	for i := 0; i < n; i++ {
		in := c07Input{T: simnet.Pick(r, []string{"dgram", "framed"}), Pre: r.Bool(0.3), Kind: simnet.Pick(r, c07Kinds), A: r.Intn(1 << 16), B: r.Intn(1 << 16)}
		if in.Kind == "hello-impersonate" {
			in.Pre = true
		}
		if in.Kind == "random" || in.Kind == "frame-raw" {
			in.S = fmt.Sprintf("%x", r.Bytes(r.Range(1, 80)))
		}
		p.Inputs = append(p.Inputs, in)
	}
	if r.Bool(0.5) {
		p.Coincide = r.Range(2, 6)
	}
	p.LateJoin = r.Bool(0.5)
	return p
}

// c07Render builds the bytes of one input.  ctx carries what a connected peer can know.
type c07Ctx struct {
	self, victim, a, b string
	victimEpoch        uint64
	seq                *uint64
	idn                *int
}

func (c *c07Ctx) nextID() string {
	*c.idn++
	return fmt.Sprintf("zx%06d", *c.idn)
}

func c07Render(in c07Input, c *c07Ctx) []byte {
	pick := func(xs []string, k int) string { return xs[k%len(xs)] }
	baseRoute := func() map[string]any {
		*c.seq++
		return map[string]any{"NodeID": c.self, "UpdateID": c.nextID(), "UpdateEpoch": uint64(9) << 24, "UpdateSequence": *c.seq,
			"Connections": map[string]float64{c.victim: 1}, "ForwardingNode": c.self, "SuspectedDuplicate": 0}
	}
	baseAd := func() map[string]any {
		return map[string]any{"NodeID": c.self, "Service": "svc" + fmt.Sprint(in.A%5), "Time": time.Now().Format(time.RFC3339Nano), "ConnType": 0,
			"Tags": map[string]string{"k": "v"}, "WorkCommands": nil, "Cancel": false}
	}
	// rawObj marshals a map but lets one field carry an arbitrary JSON text
	rawObj := func(m map[string]any, field, rawVal string) []byte {
		parts := []string{}
		for k, v := range m {
			if k == field {
				continue
			}
			b, _ := json.Marshal(v)
			kb, _ := json.Marshal(k)
			parts = append(parts, string(kb)+":"+string(b))
		}
		if field != "" {
			kb, _ := json.Marshal(field)
			parts = append(parts, string(kb)+":"+rawVal)
		}
		return []byte("{" + strings.Join(parts, ",") + "}")
	}
	switch in.Kind {
	case "empty":
		return []byte{}
	case "onebyte":
		return []byte{byte(in.A)}
	case "random", "frame-raw":
		var b []byte
		_, _ = fmt.Sscanf(in.S, "%x", &b)
		return b
	case "route-body":
		return append([]byte{simnet.MsgRoute}, []byte(pick(append(c07JSONValues, `{`, `{"NodeID":`, "\xff\xfe", ``), in.A))...)
	case "ad-body":
		return append([]byte{simnet.MsgAd}, []byte(pick(append(c07JSONValues, `{`, `{"NodeID":`, "\xff\xfe", ``), in.A))...)
	case "ad-empty-obj":
		return append([]byte{simnet.MsgAd}, []byte(pick([]string{`{}`, `{"Cancel":true}`, `{"Cancel":false}`, `{"ServiceAdvertisement":null}`, `{"Tags":{}}`}, in.A))...)
	case "route-field":
		return append([]byte{simnet.MsgRoute}, rawObj(baseRoute(), pick(c07RouteFields, in.A), pick(c07JSONValues, in.B))...)
	case "ad-field":
		return append([]byte{simnet.MsgAd}, rawObj(baseAd(), pick(c07AdFields, in.A), pick(c07JSONValues, in.B))...)
	case "route-absurd":
		m := baseRoute()
		switch in.A % 8 {
		case 0:
			m["NodeID"], m["Connections"] = "zphantom", map[string]float64{"zphantom": 1, "zother": 1e300}
		case 1:
			m["NodeID"], m["Connections"] = "", map[string]float64{}
		case 2:
			m["NodeID"] = strings.Repeat("L", 9000)
		case 3:
			m["NodeID"], m["Connections"] = "zphantom2", map[string]float64{"": 0, c.self: 0}
		case 4:
			m["UpdateEpoch"], m["UpdateSequence"] = uint64(0), uint64(0)
		case 5:
			m["UpdateEpoch"] = ^uint64(0)
			m["NodeID"] = "zphantom3"
		case 6:
			conns := map[string]float64{c.victim: 1}
			for i := 0; i < 300; i++ {
				conns[fmt.Sprintf("zmany%d", i)] = float64(i)
			}
			m["Connections"] = conns
		case 7:
			m["NodeID"], m["Connections"] = "localhost", map[string]float64{"localhost": 1}
		}
		b, _ := json.Marshal(m)
		return append([]byte{simnet.MsgRoute}, b...)
	case "hello-impersonate":
		// a handshake (first routing message on a session) claiming the identity of a well-behaved peer or of the victim
		m := baseRoute()
		who := pick([]string{c.a, c.b, c.victim, c.a, c.b}, in.A)
		m["NodeID"], m["ForwardingNode"] = who, who
		b, _ := json.Marshal(m)
		return append([]byte{simnet.MsgRoute}, b...)
	case "route-negcost":
		// costs that no configuration could produce: zero, negative, a negative cycle between the peer and a phantom
		m := baseRoute()
		switch in.A % 3 {
		case 0:
			m["Connections"] = map[string]float64{c.victim: 1, "zneg": -5}
		case 1:
			m["NodeID"], m["Connections"] = "zneg", map[string]float64{c.self: -5}
		case 2:
			m["NodeID"], m["Connections"] = "zneg2", map[string]float64{c.self: 0, "zneg": -1e300}
		}
		b, _ := json.Marshal(m)
		return append([]byte{simnet.MsgRoute}, b...)
	case "ad-absurd":
		m := baseAd()
		switch in.A % 6 {
		case 0:
			m["NodeID"], m["Service"] = "", ""
		case 1:
			m["Time"] = "9999-12-31T23:59:59Z"
		case 2:
			m["Service"] = strings.Repeat("s", 5000)
		case 3:
			m["NodeID"], m["Cancel"] = "zphantom", true
		case 4:
			m["Time"] = "0001-01-01T00:00:00Z"
		case 5:
			m["ConnType"] = 255
		}
		b, _ := json.Marshal(m)
		return append([]byte{simnet.MsgAd}, b...)
	case "ad-cancel-unknown":
		m := baseAd()
		m["NodeID"], m["Service"], m["Cancel"] = pick([]string{"zghost", c.a, c.self}, in.A), "nosuch", true
		b, _ := json.Marshal(m)
		return append([]byte{simnet.MsgAd}, b...)
	case "route-dupkeys":
		return append([]byte{simnet.MsgRoute}, []byte(`{"NodeID":"zd1","NodeID":"zd2","UpdateID":"zdup0001","UpdateID":"zdup0002","UpdateEpoch":1,"UpdateEpoch":2,"Connections":{"a":1,"a":2},"ForwardingNode":"x","ForwardingNode":"`+c.self+`"}`)...)
	case "deep-json":
		d := 200 + in.A%5000
		return append([]byte{byte(1 + in.B%2)}, []byte(strings.Repeat("[", d)+strings.Repeat("]", d))...)
	case "data-short":
		return append([]byte{simnet.MsgData}, make([]byte, in.A%36)...)
	case "data-hdr":
		// unknown hashes, zero hop budget, odd services
		from, to := pick([]string{"zunknown", c.self, c.a, c.victim}, in.A), pick([]string{"zunknown2", c.b, c.victim, c.self}, in.B)
		return simnet.DataPacket(byte(in.A%3), from, to, pick([]string{"x", "", "unreach", "ping"}, in.A>>2), pick([]string{"y", "", "nosvc"}, in.B>>2), []byte("hello"))
	case "data-reserved":
		// reserved services with garbage payloads, addressed to the victim
		return simnet.DataPacket(5, pick([]string{c.self, c.a}, in.A), c.victim, pick([]string{"x", "unreach", "ping"}, in.B), pick([]string{"unreach", "ping"}, in.A>>1),
			[]byte(pick([]string{``, `{`, `null`, `5`, `{"FromNode":5}`, `{"Problem":"x","FromNode":"` + c.a + `"}`, "\xff"}, in.B>>1)))
	case "data-big":
		return simnet.DataPacket(5, c.self, c.b, "x", "y", make([]byte, 20000+in.A%40000))
	case "reject":
		return []byte{simnet.MsgReject, byte(in.A), byte(in.B)}
	case "unknown-type":
		return append([]byte{byte(4 + in.A%252)}, []byte(`{"NodeID":"q"}`)...)
	}
	return []byte{byte(in.A)}
}

func runC07(t *testing.T, planAny any, res *simnet.Result) {
	p := planAny.(*C07Plan)
	simnet.Bubble(t, func() {
		w := simnet.NewWorld(res.Seed)
		m := simnet.NewMesh(w)
		k := simnet.DefaultKnobs()
		k.RouteUpdate = 5 * time.Second
		k.MaxIdle = 13 * time.Second
		k.ServiceAd = 7 * time.Second
		for _, id := range []string{"a", "v", "b"} {
			m.AddNode(id, k)
		}
		la := m.AddLink(simnet.LinkCfg{Name: "LA", Latency: 1100 * time.Microsecond, FIFO: true}, "a", "v", 1)
		lb := m.AddLink(simnet.LinkCfg{Name: "LB", Latency: 1300 * time.Microsecond, FIFO: true, Framed: true}, "v", "b", 1)
		_ = m.Up(la)
		_ = m.Up(lb)
		v := m.Nodes["v"]
		// the well-behaved peers run a service each, so there is traffic state to disturb
		lpc, _ := m.Nodes["b"].Net().ListenPacketAndAdvertise("echo", map[string]string{"t": "1"})
		go func() {
			buf := make([]byte, 1000)
			for {
				n, addr, err := lpc.ReadFrom(buf)
				if err != nil {
					return
				}
				_, _ = lpc.WriteTo(buf[:n], addr)
			}
		}()
		time.Sleep(4 * time.Second)
		dl, dsess, err := m.AttachScripted(v, simnet.LinkCfg{Name: "SD", Latency: time.Millisecond + 51*time.Nanosecond, FIFO: true}, "zd", 1)
		if err != nil {
			res.Violate("harness", "%v", err)
			return
		}
		fl, fconn, err := m.AttachScriptedStream(v, simnet.LinkCfg{Name: "SF", Latency: time.Millisecond + 97*time.Nanosecond, FIFO: true}, "zf", 1)
		if err != nil {
			res.Violate("harness", "%v", err)
			return
		}
		fconn.Drain()
		dseq, fseq, idn := uint64(0), uint64(0), 0
		dEst, fEst := false, false
		dctx := &c07Ctx{self: "zd", victim: "v", a: "a", b: "b", seq: &dseq, idn: &idn}
		fctx := &c07Ctx{self: "zf", victim: "v", a: "a", b: "b", seq: &fseq, idn: &idn}
		hello := func(c *c07Ctx) []byte {
			*c.seq++
			b, _ := json.Marshal(&simnet.RoutingUpdate{NodeID: c.self, UpdateID: c.nextID(), UpdateEpoch: 9 << 24, UpdateSequence: *c.seq,
				Connections: map[string]float64{"v": 1}, ForwardingNode: c.self})
			return append([]byte{simnet.MsgRoute}, b...)
		}
		alive := func(step int, what string) bool {
			ctx, cancel := context.WithTimeout(context.Background(), 15*time.Second)
			defer cancel()
			_, from, err := m.Nodes["a"].Net().Ping(ctx, "b", 10)
			if err != nil || from != "b" {
				res.Violate("c07:routing-broken|"+what, "after input %d (%s) a ping a->b through the victim fails: from=%q err=%v", step, what, from, err)
				return false
			}
			st := v.Net().Status()
			if len(st.RoutingTable) < 2 {
				res.Violate("c07:routing-broken|"+what, "after input %d (%s) the victim's routing table is %v", step, what, st.RoutingTable)
				return false
			}
			return true
		}
		kinds := map[string]bool{}
		for i, in := range p.Inputs {
			var send func([]byte) error
			if in.T == "framed" {
				if !fconn.Open() || (in.Pre && fEst) || in.Kind == "frame-raw" && fEst && in.Pre {
					nc, err := m.ReconnectScriptedStream(fl)
					if err != nil {
						continue
					}
					fconn = nc
					fconn.Drain()
					fEst = false
					res.Add("probe_reconnect", 1)
				}
				if !in.Pre && !fEst {
					_, _ = fconn.Write(simnet.Frame(hello(fctx)))
					time.Sleep(300 * time.Millisecond)
					fEst = true
				}
				cc := fconn
				send = func(b []byte) error {
					if in.Kind == "frame-raw" {
						_, err := cc.Write(b) // raw bytes: broken framing
						return err
					}
					if len(b) > 65535 {
						b = b[:65535]
					}
					_, err := cc.Write(simnet.Frame(b))
					return err
				}
			} else {
				if !dsess.Open() || (in.Pre && dEst) {
					ns, err := m.ReconnectScripted(dl)
					if err != nil {
						continue
					}
					dsess = ns
					dEst = false
					res.Add("probe_reconnect", 1)
				}
				if !in.Pre && !dEst {
					_ = dsess.Send(hello(dctx))
					time.Sleep(300 * time.Millisecond)
					dEst = true
				}
				ss := dsess
				send = func(b []byte) error { return ss.Send(b) }
			}
			c := dctx
			if in.T == "framed" {
				c = fctx
			}
			msg := c07Render(in, c)
			_ = send(msg)
			w.Event("input %d %s pre=%v %s len=%d", i, in.T, in.Pre, in.Kind, len(msg))
			kinds[in.Kind] = true
			res.Add("inputs_sent", 1)
			time.Sleep(100 * time.Millisecond)
			simnet.Quiesce()
			if !alive(i, in.Kind) {
				break
			}
		}
		// ---- a node that the victim first hears about through relayed updates - the latest of them with no connection
		// list at all - and that then connects itself
		if p.LateJoin && len(res.Violations) == 0 && dsess.Open() {
			if !dEst {
				_ = dsess.Send(hello(dctx))
				time.Sleep(300 * time.Millisecond)
				dEst = true
			}
			name := fmt.Sprintf("late%d", simnet.H(res.Seed, "late")%1000)
			for i, conns := range []string{`{"zd":1}`, simnet.Pick(simnet.NewRng(res.Seed, "latejoin"), []string{`null`, `{}`, `null`})} {
				raw := fmt.Sprintf(`{"NodeID":%q,"UpdateID":%q,"UpdateEpoch":%d,"UpdateSequence":%d,"Connections":%s,"ForwardingNode":"zd","SuspectedDuplicate":0}`,
					name, dctx.nextID(), 9<<24, i+1, conns)
				_ = dsess.Send(append([]byte{simnet.MsgRoute}, raw...))
				time.Sleep(150 * time.Millisecond)
			}
			if _, ls, err := m.AttachScripted(v, simnet.LinkCfg{Name: "SL", Latency: time.Millisecond + 613*time.Nanosecond, FIFO: true}, "zl", 1); err == nil {
				b, _ := json.Marshal(&simnet.RoutingUpdate{NodeID: name, UpdateID: dctx.nextID(), UpdateEpoch: 9 << 24, UpdateSequence: 3, Connections: map[string]float64{"v": 1}, ForwardingNode: name})
				_ = ls.Send(append([]byte{simnet.MsgRoute}, b...))
				time.Sleep(500 * time.Millisecond)
				simnet.Quiesce()
				res.Add("probe_described_then_joined", 1)
				alive(len(p.Inputs), "late-join")
				_ = ls.Close()
				time.Sleep(200 * time.Millisecond)
			}
		}
		// ---- three things in one instant: the victim's route flood (100 ms after a new peer was admitted), the first
		// update about a node nobody has heard of relayed by one well-behaved peer, and a reject from another.  The
		// goroutines are held back at random lock sites (in real time) so that their lock acquisitions interleave.
		if p.Coincide > 0 && len(res.Violations) == 0 && os.Getenv("VERIF_NO_REALTIME") == "" {
			defer installYields(res.Seed, 0, "none")()
			stopNoise := installLockNoise(res.Seed, 0.5)
			mkPeer := func(name string, latNs int) (*simnet.Session, time.Duration) {
				lat := time.Millisecond + time.Duration(latNs)*time.Nanosecond
				_, sess, err := m.AttachScripted(v, simnet.LinkCfg{Name: "C" + name, Latency: lat, FIFO: true}, "z"+name, 1)
				if err != nil {
					return nil, 0
				}
				return sess, lat
			}
			helloAs := func(id string, seq uint64) []byte {
				b, _ := json.Marshal(&simnet.RoutingUpdate{NodeID: id, UpdateID: dctx.nextID(), UpdateEpoch: 9 << 24, UpdateSequence: seq, Connections: map[string]float64{"v": 1}, ForwardingNode: id})
				return append([]byte{simnet.MsgRoute}, b...)
			}
			for round := 0; round < p.Coincide && len(res.Violations) == 0; round++ {
				ys, ly := mkPeer(fmt.Sprintf("y%d", round), 211+round)
				xs, lx := mkPeer(fmt.Sprintf("x%d", round), 307+round)
				ts, lt := mkPeer(fmt.Sprintf("t%d", round), 401+round)
				if ys == nil || xs == nil || ts == nil {
					break
				}
				time.Sleep(50 * time.Millisecond)
				_ = ys.Send(helloAs(fmt.Sprintf("zy%d", round), 1))
				_ = xs.Send(helloAs(fmt.Sprintf("zx%d", round), 1))
				time.Sleep(700 * time.Millisecond)
				t0 := w.Now()
				_ = ts.Send(helloAs(fmt.Sprintf("zt%d", round), 1))
				floodAt := t0 + lt + 100*time.Millisecond // admitted on arrival; the flood it asks for runs 100 ms later
				var cw sync.WaitGroup
				cw.Add(2)
				go func() {
					defer cw.Done()
					w.SleepUntil(floodAt - ly)
					b, _ := json.Marshal(&simnet.RoutingUpdate{NodeID: fmt.Sprintf("unheard%d", round), UpdateID: dctx.nextID(), UpdateEpoch: 9 << 24, UpdateSequence: 1,
						Connections: map[string]float64{fmt.Sprintf("zy%d", round): 1}, ForwardingNode: fmt.Sprintf("zy%d", round)})
					_ = ys.Send(append([]byte{simnet.MsgRoute}, b...))
				}()
				go func() {
					defer cw.Done()
					w.SleepUntil(floodAt - lx)
					_ = xs.Send([]byte{simnet.MsgReject, '[', ']'})
				}()
				cw.Wait()
				time.Sleep(400 * time.Millisecond)
				simnet.Quiesce()
				res.Add("probe_three_way_coincidence", 1)
				if !alive(len(p.Inputs)+round, "coincidence") {
					break
				}
				_ = ys.Close()
				_ = ts.Close()
				time.Sleep(200 * time.Millisecond)
			}
			stopNoise()
		}
		// and it keeps working afterwards (periodic machinery still runs)
		time.Sleep(20 * time.Second)
		if len(res.Violations) == 0 {
			alive(len(p.Inputs), "final")
			// the echo service of a well-behaved peer is still reachable through the victim
			pc, _ := m.Nodes["a"].Net().ListenPacket("")
			_, _ = pc.WriteTo([]byte("still there?"), m.Nodes["a"].Net().NewAddr("b", "echo"))
			_ = pc.SetReadDeadline(time.Now().Add(5 * time.Second))
			buf := make([]byte, 100)
			n, _, err := pc.ReadFrom(buf)
			if err != nil || string(buf[:n]) != "still there?" {
				res.Violate("c07:routing-broken|final-echo", "echo through the victim failed after the inputs: %v %q", err, buf[:n])
			}
			_ = pc.Close()
		}
		res.SimSeconds = w.Now().Seconds()
		res.LogHash, res.LogLines = w.CanonicalLogHash()
		res.Merge(w.Stats())
		res.Class = strings.Join(simnet.SortedKeys(kinds), "+")
		_ = lpc.Close()
		for _, n := range m.Nodes {
			n.Stop()
		}
		time.Sleep(3 * time.Second)
	})
}

func TestC07(t *testing.T) {
	quiet()
	simnet.RunCheck(t, simnet.Check{ID: "C07", Gen: genC07, NewPlan: func() any { return &C07Plan{} }, Run: runC07})
}
