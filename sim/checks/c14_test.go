//go:build verif

package checks

import (
	"context"
	"encoding/json"
	"fmt"
	"os"
	"path/filepath"
	"sort"
	"strings"
	"sync"
	"testing"
	"time"

	"github.com/anishathalye/porcupine"
	"github.com/ansible/receptor/pkg/netceptor"
	"github.com/ansible/receptor/pkg/verifhook"
	"github.com/ansible/receptor/pkg/workceptor"
	"verif/sim/simnet"
	"verif/sim/simwork"
)

// C14 — status records are updated atomically w.r.t. every other reader and writer.

type C14Plan struct {
	Real   *RealPlan  `json:"real,omitempty"` // the second writer is the real runner process (realrunner_test.go)
	Fresh  bool       `json:"fresh"`          // the record does not exist yet when the tasks start (first writes race on an empty file)
	Procs  [][]string `json:"procs"`          // per simulated OS process: operations (inc, load, basic)
	Daemon [][]string `json:"daemon"`         // per daemon goroutine on one BaseWorkUnit: operations (inc, load, basic)
	Shrink []string   `json:"_shrink"`
}

func genC14(seed uint64, tier string) any {
	r := simnet.NewRng(seed, "c14")
	p := &C14Plan{Shrink: []string{"procs", "daemon"}}
	if r.Bool(0.02) {
		p.Real = genReal(r)
		if p.Real.Payload == "ignore-int" {
			p.Real.Payload = "last-words" // (the 10 s kill escalation is C13's subject)
		}
		return p
	}
	p.Fresh = r.Bool(0.3)
	np, nd := r.Range(1, 3), r.Range(0, 3)
	if p.Fresh {
		nd = 0 // the daemon's unit object always has a record behind it
		np = r.Range(2, 3)
	}
	budget := 14
	if tier == "thorough" {
		budget = 24
	}
	ops := func() []string {
		var out []string
		for k := r.Range(1, 5); k > 0 && budget > 0; k-- {
			budget--
			out = append(out, simnet.Pick(r, []string{"inc", "inc", "inc", "load", "basic", "set1", "set2", "set1"}))
		}
		return out
	}
	for i := 0; i < np; i++ {
		p.Procs = append(p.Procs, ops())
	}
	if h := simnet.H(seed, "c14fin"); h%3 == 0 && len(p.Procs) > 0 {
		// the runner's last report: a final state, after which the other writers still have updates to make
		pi := int(h/3) % len(p.Procs)
		at := int(h/64) % (len(p.Procs[pi]) + 1)
		p.Procs[pi] = append(p.Procs[pi][:at:at], append([]string{"fin"}, p.Procs[pi][at:]...)...)
	}
	for i := 0; i < nd; i++ {
		dops := ops()
		for j := range dops {
			if r.Bool(0.25) {
				dops[j] = "peek" // what the daemon would report right now (its in-memory view, no file access)
			}
		}
		p.Daemon = append(p.Daemon, dops)
	}
	return p
}

// the in-process work type that gives daemon-side callers a real BaseWorkUnit
type c14Unit struct {
	workceptor.BaseWorkUnit
}

func (u *c14Unit) Start() error   { return nil }
func (u *c14Unit) Restart() error { return nil }
func (u *c14Unit) Cancel() error  { return nil }

type c14In struct {
	Op    string
	Owner string
}

type c14Out struct {
	Counts map[string]int
	Basic  int    // StdoutSize as seen by a load
	Detail string // Detail as seen by a load
	Err    string
}

func counts(ed interface{}) map[string]int {
	out := map[string]int{}
	m, ok := ed.(map[string]interface{})
	if !ok {
		return out
	}
	for k, v := range m {
		if f, ok := v.(float64); ok {
			out[k] = int(f)
		} else if i, ok := v.(int); ok {
			out[k] = i
		}
	}
	return out
}

func bump(owner string) func(*workceptor.StatusFileData) {
	return func(s *workceptor.StatusFileData) {
		m, ok := s.ExtraData.(map[string]interface{})
		if !ok || m == nil {
			m = map[string]interface{}{}
		}
		c := 0
		if f, ok := m[owner].(float64); ok {
			c = int(f)
		} else if i, ok := m[owner].(int); ok {
			c = i
		}
		m[owner] = c + 1
		s.ExtraData = m
	}
}

type c14State struct {
	counts map[string]int
	basic  int
	detail string // a plain register: the last "set" wins
}

func (s c14State) clone() c14State {
	n := c14State{counts: map[string]int{}, basic: s.basic, detail: s.detail}
	for k, v := range s.counts {
		n.counts[k] = v
	}
	return n
}

var c14Model = porcupine.Model{
	Init: func() interface{} { return c14State{counts: map[string]int{}} },
	Step: func(state, input, output interface{}) (bool, interface{}) {
		st := state.(c14State)
		in := input.(c14In)
		out := output.(c14Out)
		switch in.Op {
		case "inc":
			n := st.clone()
			n.counts[in.Owner]++
			return out.Err == "", n
		case "basic":
			n := st.clone()
			n.basic++
			return out.Err == "", n
		case "set1", "set2":
			n := st.clone()
			n.detail = in.Op
			return out.Err == "", n
		case "fin": // touches none of the modelled fields
			return out.Err == "", st
		default: // load
			if out.Err != "" {
				return false, st
			}
			if out.Basic != st.basic || out.Detail != st.detail {
				return false, st
			}
			for k, v := range st.counts {
				if out.Counts[k] != v {
					return false, st
				}
			}
			for k, v := range out.Counts {
				if st.counts[k] != v {
					return false, st
				}
			}
			return true, st
		}
	},
	Equal: func(a, b interface{}) bool {
		x, y := a.(c14State), b.(c14State)
		if x.basic != y.basic || x.detail != y.detail || len(x.counts) != len(y.counts) {
			return false
		}
		for k, v := range x.counts {
			if y.counts[k] != v {
				return false
			}
		}
		return true
	},
	DescribeOperation: func(input, output interface{}) string {
		return fmt.Sprintf("%+v -> %+v", input, output)
	},
}

func runC14(t *testing.T, planAny any, res *simnet.Result) {
	p := planAny.(*C14Plan)
	if p.Real != nil {
		runReal(t, p.Real, "c14", res)
		return
	}
	runStatusHistory(t, p, "c14", res)
}

// runStatusHistory runs one scheduled history of status operations (also used by C13 for what the daemon reports
// from its in-memory view of a unit).
func runStatusHistory(t *testing.T, p *C14Plan, prop string, res *simnet.Result) {
	runDir := simwork.NewRunDir()
	defer simwork.RemoveRunDir(runDir)
	// no simulated clock is needed here: nothing in this protocol waits for time
	ctx, cancel := context.WithCancel(context.Background())
	defer cancel()
	nc := netceptor.New(ctx, "w0")
	wc, err := workceptor.New(ctx, nc, filepath.Join(runDir, "d"))
	if err != nil {
		res.Violate("harness", "%v", err)
		return
	}
	workceptor.MainInstance = wc
	var theUnit *c14Unit
	_ = wc.RegisterWorker("inproc", func(_ workceptor.BaseWorkUnitForWorkUnit, w *workceptor.Workceptor, id, wt string) workceptor.WorkUnit {
		u := &c14Unit{}
		u.BaseWorkUnit.Init(w, id, wt, workceptor.FileSystem{}, nil)
		theUnit = u
		return u
	}, false)
	unit, err := wc.AllocateUnit("inproc", map[string]string{})
	if err != nil || theUnit == nil {
		res.Violate("harness", "allocate: %v", err)
		return
	}
	statusReal := unit.StatusFileName()
	initialDetail := ""
	if p.Fresh {
		_ = os.Truncate(statusReal, 0)
	} else {
		first := &workceptor.StatusFileData{}
		if first.Load(statusReal) == nil {
			initialDetail = first.Detail
		}
	}
	sched := simwork.NewSched(res.Seed)
	sched.MutexFree = func() bool {
		l := theUnit.GetStatusLock()
		if !l.TryLock() {
			return false
		}
		l.Unlock()
		return true
	}
	sched.KernelQueue = os.Getenv("VERIF_NO_REALTIME") == ""
	verifhook.SetStepHandler(sched.Step)
	defer verifhook.SetStepHandler(nil)
	var hmu sync.Mutex
	var history []porcupine.Operation
	record := func(client int, in c14In, call int64, out c14Out, ret int64) {
		hmu.Lock()
		history = append(history, porcupine.Operation{ClientId: client, Input: in, Call: call, Output: out, Return: ret})
		hmu.Unlock()
	}
	expected := map[string]int{}
	basics := 0
	client := 0
	for pi, ops := range p.Procs {
		client++
		owner := fmt.Sprintf("p%d", pi)
		// every simulated process reaches the file through its own name and its own descriptors
		alias := filepath.Join(runDir, "alias-"+owner)
		_ = os.Symlink(filepath.Dir(statusReal), alias)
		path := filepath.Join(alias, "status")
		cl := client
		for _, op := range ops {
			if op == "inc" {
				expected[owner]++
			} else if op == "basic" {
				basics++
			}
		}
		sched.Go(owner, false, func(tk *simwork.Task) {
			// the process keeps its record object between updates, as the command runner does
			sfd := &workceptor.StatusFileData{}
			for _, op := range ops {
				call := tk.Begin()
				out := c14Out{}
				switch op {
				case "inc":
					if err := sfd.UpdateFullStatus(path, bump(owner)); err != nil {
						out.Err = err.Error()
					}
				case "basic":
					// what the command runner does: touches state/detail/size only (size used as a counter here)
					if err := sfd.UpdateFullStatus(path, func(s *workceptor.StatusFileData) { s.StdoutSize++ }); err != nil {
						out.Err = err.Error()
					}
				case "set1", "set2":
					// an absolute assignment, repeated verbatim (the runner's periodic "Running" report)
					if err := sfd.UpdateFullStatus(path, func(s *workceptor.StatusFileData) { s.Detail = op }); err != nil {
						out.Err = err.Error()
					}
				case "fin":
					if err := sfd.UpdateFullStatus(path, func(s *workceptor.StatusFileData) { s.State = workceptor.WorkStateSucceeded }); err != nil {
						out.Err = err.Error()
					}
				default:
					if err := sfd.Load(path); err != nil {
						if !(p.Fresh && strings.Contains(err.Error(), "unexpected end of JSON input")) {
							out.Err = err.Error() // (an empty record that nobody has written yet does not parse; that is not a torn read)
						} else {
							out.Counts = map[string]int{}
						}
					} else {
						out.Counts, out.Basic, out.Detail = counts(sfd.ExtraData), int(sfd.StdoutSize), sfd.Detail
					}
				}
				ret := tk.End()
				record(cl, c14In{Op: op, Owner: owner}, call, out, ret)
			}
		})
	}
	for di, ops := range p.Daemon {
		client++
		owner := fmt.Sprintf("d%d", di)
		cl := client
		for _, op := range ops {
			if op == "inc" {
				expected[owner]++
			} else if op == "basic" {
				basics++
			}
		}
		sched.Go(owner, true, func(tk *simwork.Task) {
			for _, op := range ops {
				call := tk.Begin()
				out := c14Out{}
				switch op {
				case "inc":
					theUnit.UpdateFullStatus(bump(owner))
					if err := theUnit.LastUpdateError(); err != nil {
						out.Err = err.Error()
					}
				case "basic":
					theUnit.UpdateFullStatus(func(s *workceptor.StatusFileData) { s.StdoutSize++ })
					if err := theUnit.LastUpdateError(); err != nil {
						out.Err = err.Error()
					}
				case "set1", "set2":
					theUnit.UpdateFullStatus(func(s *workceptor.StatusFileData) { s.Detail = op })
					if err := theUnit.LastUpdateError(); err != nil {
						out.Err = err.Error()
					}
				case "peek":
					theUnit.GetStatusLock().RLock()
					cp := theUnit.GetStatusCopy()
					theUnit.GetStatusLock().RUnlock()
					out.Counts, out.Basic, out.Detail = counts(cp.ExtraData), int(cp.StdoutSize), cp.Detail
				default:
					if err := theUnit.Load(); err != nil {
						out.Err = err.Error()
					} else {
						theUnit.GetStatusLock().RLock()
						cp := theUnit.GetStatusCopy()
						theUnit.GetStatusLock().RUnlock()
						out.Counts, out.Basic, out.Detail = counts(cp.ExtraData), int(cp.StdoutSize), cp.Detail
					}
				}
				ret := tk.End()
				record(cl, c14In{Op: op, Owner: owner}, call, out, ret)
			}
		})
	}
	done := make(chan bool, 1)
	go func() { done <- sched.Run() }()
	select {
	case ok := <-done:
		if !ok {
			res.Violate("c14:deadlock", "every remaining task waits for a status lock that nobody can release")
		}
	case <-time.After(60 * time.Second):
		res.Violate("c14:stuck", "the tasks did not finish in 60 s of real time")
		return
	}
	verifhook.SetStepHandler(nil)
	// every load must have parsed, no update may have failed
	for _, op := range history {
		if e := op.Output.(c14Out).Err; e != "" {
			in := op.Input.(c14In)
			sig := "c14:update-failed"
			if in.Op == "load" {
				sig = "c14:torn-read"
			}
			res.Violate(sig, "%s by %s failed: %s", in.Op, in.Owner, e)
		}
	}
	// final record == number of applied updates per owner
	final := &workceptor.StatusFileData{}
	writes := basics
	for _, v := range expected {
		writes += v
	}
	if err := final.Load(statusReal); err != nil && p.Fresh && writes == 0 {
		res.Add("probe_fresh_record_never_written", 1) // nothing wrote: the record is still empty, which is right
		return
	} else if err != nil {
		res.Violate("c14:final-unreadable", "final record does not load: %v", err)
	} else {
		got := counts(final.ExtraData)
		for o, n := range expected {
			if got[o] != n {
				res.Violate("c14:lost-update", "owner %s applied %d updates, the final record says %d (record: %v, size %d, expected size %d)", o, n, got[o], got, final.StdoutSize, basics)
			}
		}
		if int(final.StdoutSize) != basics {
			res.Violate("c14:lost-update", "%d basic updates were applied, the final record says %d", basics, final.StdoutSize)
		}
		if final.WorkType != "inproc" && !p.Fresh {
			res.Violate("c14:field-wiped", "the work type written at creation was wiped: %q", final.WorkType)
		}
	}
	// what the daemon reports from memory never goes back: neither the size counter nor its own goroutines' updates
	{
		var views []porcupine.Operation
		var rest []porcupine.Operation
		for _, op := range history {
			if in := op.Input.(c14In); in.Op == "peek" || (in.Op == "load" && strings.HasPrefix(in.Owner, "d")) {
				views = append(views, op)
			}
			if op.Input.(c14In).Op != "peek" {
				rest = append(rest, op)
			}
		}
		sort.Slice(views, func(i, j int) bool { return views[i].Call < views[j].Call })
		for i, a := range views {
			for _, b := range views[i+1:] {
				if b.Call <= a.Return {
					continue // overlapping: no order between them
				}
				ao, bo := a.Output.(c14Out), b.Output.(c14Out)
				if ao.Err != "" || bo.Err != "" {
					continue
				}
				if bo.Basic < ao.Basic {
					res.Violate(prop+":reported-size-shrank", "the daemon's view of the unit showed size %d (operation [%d,%d]) and later size %d (operation [%d,%d])", ao.Basic, a.Call, a.Return, bo.Basic, b.Call, b.Return)
				}
				for o, n := range ao.Counts {
					if strings.HasPrefix(o, "d") && bo.Counts[o] < n {
						res.Violate(prop+":in-memory-update-lost", "the daemon's view showed %d updates of its own goroutine %s and later %d", n, o, bo.Counts[o])
					}
				}
			}
			if len(res.Violations) > 0 {
				break
			}
		}
		// an update made by a goroutine of the daemon is in the daemon's view from the moment it returns
		for _, v := range views {
			vo := v.Output.(c14Out)
			if vo.Err != "" {
				continue
			}
			done := map[string]int{}
			for _, op := range history {
				in := op.Input.(c14In)
				if in.Op == "inc" && strings.HasPrefix(in.Owner, "d") && op.Return < v.Call && op.Output.(c14Out).Err == "" {
					done[in.Owner]++
				}
			}
			for o, n := range done {
				if vo.Counts[o] < n && len(res.Violations) == 0 {
					res.Violate(prop+":in-memory-update-lost", "goroutine %s of the daemon had completed %d updates, yet the daemon's view afterwards shows %d", o, n, vo.Counts[o])
				}
			}
		}
		history = rest
	}
	if len(res.Violations) == 0 && len(history) > 0 {
		model := c14Model
		model.Init = func() interface{} { return c14State{counts: map[string]int{}, detail: initialDetail} }
		r := porcupine.CheckOperationsTimeout(model, history, 30*time.Second)
		switch r {
		case porcupine.Illegal:
			b, _ := json.Marshal(describe(history))
			res.Violate("c14:not-linearizable", "history of %d operations is not linearizable against a sequential record: %s", len(history), b)
		case porcupine.Unknown:
			res.Add("porcupine_unknown", 1)
		default:
			res.Add("histories_linearizable", 1)
		}
	}
	res.Add("operations", int64(len(history)))
	for k, v := range sched.Stats {
		res.Add(k, v)
	}
	kinds := map[string]int{}
	for _, op := range history {
		kinds[op.Input.(c14In).Op]++
	}
	res.Class = fmt.Sprintf("procs=%d daemon=%d inc=%d load=%d basic=%d choice=%d", len(p.Procs), len(p.Daemon), kinds["inc"], kinds["load"], kinds["basic"], bucket(int(sched.Stats["sched_choice_points"])))
	res.LogHash = fmt.Sprintf("%x", simnet.H(0, fmt.Sprint(describe(history))))
	nc.Shutdown()
}

func describe(h []porcupine.Operation) []string {
	out := []string{}
	ops := append([]porcupine.Operation(nil), h...)
	sort.Slice(ops, func(i, j int) bool { return ops[i].Call < ops[j].Call })
	for _, op := range ops {
		in, o := op.Input.(c14In), op.Output.(c14Out)
		s := fmt.Sprintf("[%d,%d] c%d %s(%s)", op.Call, op.Return, op.ClientId, in.Op, in.Owner)
		if in.Op == "load" {
			ks := simnet.SortedKeys(o.Counts)
			parts := []string{}
			for _, k := range ks {
				parts = append(parts, fmt.Sprintf("%s=%d", k, o.Counts[k]))
			}
			s += fmt.Sprintf(" -> {%s} size=%d detail=%q", strings.Join(parts, ","), o.Basic, o.Detail)
		}
		if o.Err != "" {
			s += " ERR " + o.Err
		}
		out = append(out, s)
	}
	return out
}

func TestC14(t *testing.T) {
	quietNamed()
	defer simwork.CleanupScratch()
	simnet.RunCheck(t, simnet.Check{ID: "C14", Gen: genC14, NewPlan: func() any { return &C14Plan{} }, Run: runC14})
}
