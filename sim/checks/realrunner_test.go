//go:build verif

package checks

import (
	"bytes"
	"encoding/json"
	"fmt"
	"os"
	"path/filepath"
	"strconv"
	"strings"
	"sync"
	"syscall"
	"testing"
	"time"

	"verif/sim/simnet"
	"verif/sim/simwork"
)

// Real-runner scenario: the daemon side runs in this process, the command runner is the real receptor binary built
// from the tree (a real OS process running a real shell command), parked and released at its file steps through
// the step gate.  The simulator decides the order of the two writers' first updates, and when a cancel arrives.
// It runs in real time (no simulated clock: a child process cannot live on one), so its oracles never depend on
// durations - only on order and on what is stored.

type RealPlan struct {
	Payload  string `json:"payload"`   // normal | fast | ignore-int | fail
	PidFirst bool   `json:"pid_first"` // the daemon records the runner's pid before (true) or after the runner's first update
	Cancel   string `json:"cancel"`    // "" | running
	Release  bool   `json:"release"`
}

func genReal(r *simnet.Rng) *RealPlan {
	p := &RealPlan{Payload: simnet.Pick(r, []string{"normal", "normal", "fast", "fail", "ignore-int", "last-words"}), PidFirst: r.Bool(0.5), Release: r.Bool(0.5)}
	if p.Payload == "ignore-int" || p.Payload == "last-words" || (p.Payload == "normal" && r.Bool(0.3)) {
		p.Cancel = "running"
	}
	return p
}

type realRecord struct {
	State      int
	Detail     string
	StdoutSize int64
	WorkType   string
	ExtraData  *struct {
		Pid    int
		Params string
	}
}

func readRealRecord(path string) (realRecord, bool) {
	var s realRecord
	for try := 0; try < 3; try++ {
		b := simwork.ReadRaw(path)
		if len(b) > 0 && json.NewDecoder(bytes.NewReader(b)).Decode(&s) == nil {
			return s, true
		}
		time.Sleep(2 * time.Millisecond)
	}
	return s, false
}

func procAlive(pid int) bool {
	b, err := os.ReadFile(fmt.Sprintf("/proc/%d/stat", pid))
	if err != nil {
		return false
	}
	// "pid (comm) S ..."
	if i := bytes.LastIndexByte(b, ')'); i >= 0 && i+2 < len(b) {
		return b[i+2] != 'Z' && b[i+2] != 'X'
	}
	return true
}

func runReal(t *testing.T, p *RealPlan, prop string, res *simnet.Result) {
	if os.Getenv("VERIF_RECEPTOR_BIN") == "" {
		res.Add("probe_real_runner_unavailable", 1)
		return
	}
	// (the daemon passes its log level to the runner by name; "quiet" has none: TestC13/TestC14 run at level "error")
	runDir := simwork.NewRunDir()
	defer simwork.RemoveRunDir(runDir)
	gate, err := simwork.NewGate(filepath.Join(runDir, "gate"))
	if err != nil {
		res.Violate("harness", "gate: %v", err)
		return
	}
	_ = os.Setenv("VERIF_STEP_GATE", gate.Dir)
	defer os.Unsetenv("VERIF_STEP_GATE")
	defer gate.Close()
	w := simnet.NewWorld(res.Seed)
	ctl := simwork.NewStepCtl()
	defer ctl.Close()
	m := simnet.NewMesh(w)
	k := simnet.DefaultKnobs()
	k.ServiceAd = 0
	nn := m.AddNode("w0", k)
	script := map[string]string{
		"normal":     `-c "printf hello; sleep 0.7; printf world"`,
		"fast":       `-c "printf x"`,
		"fail":       `-c "printf oops; exit 3"`,
		"ignore-int": `-c "echo $$; trap '' INT; exec sleep 40"`,
		// prints once more when it is interrupted: the runner's last update carries a size the daemon has not seen
		"last-words": `-c "trap 'echo interrupted after all; exit 1' INT; echo started; sleep 40 & wait"`,
	}[p.Payload]
	node := simwork.NewWorkNode(w, ctl, nn, runDir, []simwork.WorkType{{Name: "real", Cmd: "/bin/sh", Params: script}})
	if err := node.Start(); err != nil {
		res.Violate("harness", "start: %v", err)
		return
	}
	defer func() {
		node.Crash()
		nn.Stop()
	}()
	var mu sync.Mutex
	violate := func(sig, f string, a ...any) {
		mu.Lock()
		res.Violate(sig, f, a...)
		mu.Unlock()
	}
	runnerFirstDone := make(chan struct{})
	daemonPidDone := make(chan struct{})
	var once1, once2 sync.Once
	runnerPid := 0
	pidStored := false
	var transitions []realRecord
	execSeen := false
	heldDaemon := false
	// daemon side (in this process)
	ctl.Observe(func(kind, path string) {
		mu.Lock()
		if kind == "command.exec" {
			execSeen = true
		}
		hold := execSeen && kind == "update.lock" && !p.PidFirst && !heldDaemon
		if hold {
			heldDaemon = true
		}
		isPidDone := execSeen && kind == "update.done" && !pidStored
		mu.Unlock()
		if hold {
			select {
			case <-runnerFirstDone:
				w.Count("probe_runner_wrote_first", 1)
			case <-time.After(8 * time.Second):
				w.Count("probe_order_not_enforced", 1)
			}
		}
		if isPidDone {
			if rec, ok := readRealRecord(path); ok && rec.ExtraData != nil && rec.ExtraData.Pid > 0 {
				mu.Lock()
				pidStored = true
				mu.Unlock()
				once2.Do(func() { close(daemonPidDone) })
			}
		}
	})
	// runner side (real process, through the gate)
	gateDone := make(chan struct{})
	stopGate := make(chan struct{})
	defer func() { close(stopGate); <-gateDone }()
	go func() {
		defer close(gateDone)
		first := true
		for {
			var req *simwork.GateReq
			select {
			case req = <-gate.Reqs:
			case <-stopGate:
				return
			}
			mu.Lock()
			runnerPid = req.Pid
			mu.Unlock()
			w.Count("runner_steps_gated", 1)
			if req.Kind == "update.lock" && first {
				first = false
				if p.PidFirst {
					select {
					case <-daemonPidDone:
						w.Count("probe_daemon_wrote_first", 1)
					case <-time.After(8 * time.Second):
						w.Count("probe_order_not_enforced", 1)
					}
				}
			}
			if req.Kind == "update.done" || req.Kind == "save.done" {
				// the runner holds the record's lock here: what is stored now is what its update produced
				if rec, ok := readRealRecord(req.Path); ok {
					mu.Lock()
					transitions = append(transitions, rec)
					stored := pidStored
					mu.Unlock()
					if stored && (rec.ExtraData == nil || rec.ExtraData.Pid != req.Pid) {
						got := 0
						if rec.ExtraData != nil {
							got = rec.ExtraData.Pid
						}
						violate("c14:field-wiped", "the daemon had recorded the runner's pid %d; after an update by the runner process the stored record says pid %d (state %d, %q)", req.Pid, got, rec.State, rec.Detail)
					}
					if rec.WorkType != "real" {
						violate("c14:field-wiped", "after an update by the runner process the stored record has work type %q", rec.WorkType)
					}
				}
				once1.Do(func() { close(runnerFirstDone) })
			}
			req.Release()
		}
	}()
	// ---- submit
	c := node.Session("unix")
	_, _ = c.Hello()
	unit, ack, final, err := c.Submit("work submit w0 real", []byte("input"), 30*time.Second)
	c.Close()
	if unit == "" {
		violate(prop+":real-submit-failed", "ack=%q final=%q err=%v", ack, final, err)
		return
	}
	statusPath := filepath.Join(node.UnitDirReal(unit), "status")
	outPath := filepath.Join(node.UnitDirReal(unit), "stdout")
	status := func() (map[string]any, string) {
		c := node.Session("unix")
		defer c.Close()
		_, _ = c.Hello()
		reply, err := c.Cmd("work status "+unit, 20*time.Second)
		if err != nil {
			return nil, "no answer: " + err.Error()
		}
		var v map[string]any
		if json.Unmarshal([]byte(reply), &v) != nil {
			return nil, reply
		}
		return v, reply
	}
	waitState := func(pred func(int) bool, d time.Duration) (int, bool) {
		end := time.Now().Add(d)
		last := -1
		for time.Now().Before(end) {
			if v, _ := status(); v != nil {
				if f, ok := v["State"].(float64); ok {
					last = int(f)
					if pred(last) {
						return last, true
					}
				}
			}
			time.Sleep(100 * time.Millisecond)
		}
		return last, false
	}
	payloadPid := 0
	if p.Cancel == "running" {
		if st, ok := waitState(func(s int) bool { return s >= 1 }, 20*time.Second); !ok {
			violate(prop+":real-never-running", "the unit did not reach running within 20 s (state %d)", st)
			return
		}
		if p.Payload == "ignore-int" {
			// the payload prints its pid first
			for i := 0; i < 100 && payloadPid == 0; i++ {
				if b := simwork.ReadRaw(outPath); bytes.IndexByte(b, '\n') > 0 {
					payloadPid, _ = strconv.Atoi(strings.TrimSpace(string(b[:bytes.IndexByte(b, '\n')])))
				}
				time.Sleep(50 * time.Millisecond)
			}
			if payloadPid == 0 {
				res.Add("probe_payload_pid_unknown", 1)
			}
		}
		cc := node.Session("unix")
		_, _ = cc.Hello()
		reply, err := cc.Cmd("work cancel "+unit, 30*time.Second)
		cc.Close()
		if err != nil || strings.HasPrefix(reply, "ERROR") {
			violate(prop+":real-cancel-failed", "work cancel: %q %v", reply, err)
			return
		}
		res.Add("probe_real_cancel", 1)
	}
	st, ok := waitState(func(s int) bool { return s >= 2 }, 40*time.Second)
	if !ok {
		violate(prop+":real-not-finished", "the unit did not finish within 40 s (state %d, payload %s, cancel %q)", st, p.Payload, p.Cancel)
		return
	}
	// the runner has written its last update; give its exit a moment
	time.Sleep(300 * time.Millisecond)
	rec, _ := readRealRecord(statusPath)
	out := simwork.ReadRaw(outPath)
	// whoever wrote last: the size in the record is the size of the output (the runner owns that field)
	if fi, err := os.Stat(outPath); err == nil && rec.StdoutSize != fi.Size() {
		violate("c14:field-wiped", "the unit is finished (state %d, %q): the record says %d bytes of output, the file has %d", rec.State, rec.Detail, rec.StdoutSize, fi.Size())
	}
	switch {
	case p.Cancel != "":
		if payloadPid > 0 && procAlive(payloadPid) {
			violate("c13:cancelled-process-alive", "the unit is reported finished (state %d, %q) after a cancel, but its process %d is still running", rec.State, rec.Detail, payloadPid)
			_ = syscall.Kill(payloadPid, syscall.SIGKILL)
		}
		// (a payload that handles the interrupt and finishes normally is reported with its own outcome)
		if p.Payload == "ignore-int" && rec.State != 3 && rec.State != 4 {
			violate("c13:cancel-outcome", "after a cancel of a unit whose process had to be killed the unit is in state %d (%q)", rec.State, rec.Detail)
		}
	case p.Payload == "normal":
		if rec.State != 2 || rec.StdoutSize != 10 || string(out) != "helloworld" {
			violate(prop+":real-outcome", "normal payload: state %d (%q) size %d output %q", rec.State, rec.Detail, rec.StdoutSize, out)
		}
	case p.Payload == "fast":
		if rec.State != 2 || rec.StdoutSize != 1 || string(out) != "x" {
			violate(prop+":real-outcome", "fast payload: state %d (%q) size %d output %q", rec.State, rec.Detail, rec.StdoutSize, out)
		}
	case p.Payload == "fail":
		if rec.State != 3 || rec.StdoutSize != 4 || string(out) != "oops" {
			violate(prop+":real-outcome", "failing payload: state %d (%q) size %d output %q", rec.State, rec.Detail, rec.StdoutSize, out)
		}
	}
	// the stages written by the runner process only move forward, sizes never shrink
	mu.Lock()
	stage := func(s int) int {
		if s >= 2 {
			return 2
		}
		return s
	}
	for i := 1; i < len(transitions); i++ {
		a, b := transitions[i-1], transitions[i]
		if stage(b.State) < stage(a.State) || b.StdoutSize < a.StdoutSize {
			res.Violate("c13:backward|runner-process", "the runner process took the record from state %d size %d to state %d size %d", a.State, a.StdoutSize, b.State, b.StdoutSize)
			break
		}
	}
	res.Add("runner_updates_seen", int64(len(transitions)))
	rp := runnerPid
	mu.Unlock()
	if rp > 0 {
		for i := 0; i < 50 && procAlive(rp); i++ {
			time.Sleep(100 * time.Millisecond)
		}
		if procAlive(rp) {
			violate(prop+":real-runner-lingers", "runner process %d is still alive 5 s after the unit finished", rp)
			_ = syscall.Kill(rp, syscall.SIGKILL)
		}
	}
	if p.Release {
		cc := node.Session("unix")
		_, _ = cc.Hello()
		reply, err := cc.Cmd("work release "+unit, 30*time.Second)
		cc.Close()
		if err != nil || strings.HasPrefix(reply, "ERROR") {
			violate(prop+":real-release-failed", "work release: %q %v", reply, err)
		} else if _, err := os.Stat(node.UnitDirReal(unit)); err == nil {
			violate("c13:released-dir-remains", "unit %s reported released but its directory still exists", unit)
		}
	}
	res.Add("real_runner_runs", 1)
	res.SimSeconds = 0
	res.Merge(w.Stats())
	res.Class = fmt.Sprintf("real payload=%s pidfirst=%v cancel=%s release=%v", p.Payload, p.PidFirst, p.Cancel, p.Release)
}
