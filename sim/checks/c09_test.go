//go:build verif

package checks

import (
	"context"
	"crypto/ecdsa"
	"crypto/elliptic"
	"crypto/rand"
	"crypto/sha256"
	"crypto/sha512"
	"crypto/tls"
	"crypto/x509"
	"crypto/x509/pkix"
	"encoding/hex"
	"encoding/pem"
	"fmt"
	"math/big"
	"os"
	"path/filepath"
	"strings"
	"sync"
	"testing"
	"time"

	"github.com/ansible/receptor/pkg/netceptor"
	"github.com/ansible/receptor/pkg/utils"
	"verif/sim/simnet"
	"verif/sim/simwork"
)

// C09 — TLS peers need a trusted chain, a matching pin and the expected node ID.

type c09Case struct {
	Layer string `json:"layer"` // verify | pipe | mesh
	Role  string `json:"role"`  // server: the client checks the server's certificate; client: the server checks the client's
	Mode  string `json:"mode"`  // receptor | dns (role server only)
	Auth  string `json:"auth"`  // trusted other self
	Valid string `json:"valid"` // valid expired notyet expiring
	Usage string `json:"usage"` // server client both other none
	Names string `json:"names"` // exp other multi multi-no none
	DNS   bool   `json:"dns"`   // certificate carries the expected DNS name
	Pins  string `json:"pins"`  // none match256 match512 match224 nomatch wronglen mixed
}

// c09Seq is a history on one long-lived object: a listener's TLS configuration serving several clients one after
// the other, or one named client configuration looked up several times.
type c09Seq struct {
	Side  string   `json:"side"`  // server: one tls-server config, several client certificates; client: one tls-client config, several lookups and servers
	Peers []string `json:"peers"` // pinned | unpinned | untrusted | wrongname, in order of appearance
	Modes []string `json:"modes"` // client side: lookup mode of each step (receptor | dns)
	Pins  bool     `json:"pins"`
}

type C09Plan struct {
	Cases   []c09Case `json:"cases"`
	Seqs    []c09Seq  `json:"seqs"`
	Overlap int       `json:"overlap"` // rounds of overlapping handshakes (legitimate node and impostor) on one listener
	Shrink  []string  `json:"_shrink"`
}

var (
	c09Auth  = []string{"trusted", "trusted", "trusted", "other", "self"}
	c09Valid = []string{"valid", "valid", "valid", "expired", "notyet", "expiring"}
	c09Usage = []string{"server", "client", "both", "other", "none"}
	c09Names = []string{"exp", "exp", "other", "multi", "multi-no", "none"}
	c09Pins  = []string{"none", "none", "match256", "match512", "match224", "nomatch", "wronglen", "mixed"}
)

func genC09(seed uint64, tier string) any {
	r := simnet.NewRng(seed, "c09")
	p := &C09Plan{Shrink: []string{"cases", "seqs"}}
	n := 40
	if tier == "thorough" {
		n = 120
	}
	for i := 0; i < n; i++ {
		c := c09Case{Layer: simnet.Pick(r, []string{"verify", "verify", "verify", "pipe", "pipe"}), Role: simnet.Pick(r, []string{"server", "server", "client"}),
			Mode: simnet.Pick(r, []string{"receptor", "receptor", "dns"}), Auth: simnet.Pick(r, c09Auth), Valid: simnet.Pick(r, c09Valid), Usage: simnet.Pick(r, c09Usage),
			Names: simnet.Pick(r, c09Names), DNS: r.Bool(0.5), Pins: simnet.Pick(r, c09Pins)}
		// most cases differ from the all-good certificate in one or two dimensions only
		if r.Bool(0.5) {
			keep := r.Intn(5)
			good := c09Case{Auth: "trusted", Valid: "valid", Usage: "both", Names: "exp", DNS: true, Pins: c.Pins}
			if keep != 0 {
				c.Auth = good.Auth
			}
			if keep != 1 {
				c.Valid = good.Valid
			}
			if keep != 2 {
				c.Usage = good.Usage
			}
			if keep != 3 {
				c.Names, c.DNS = good.Names, good.DNS
			}
			if keep != 4 {
				c.Pins = simnet.Pick(r, []string{"none", "match256", "mixed"})
			}
		}
		if c.Role == "client" {
			c.Mode = "receptor"
		}
		if c.Mode == "dns" {
			c.Layer = "pipe" // the DNS name is checked by the TLS stack itself, only a handshake shows it
		}
		p.Cases = append(p.Cases, c)
	}
	// the mesh layer: mutually authenticated stream listener, the client certificate is the variable
	for i := 0; i < 3; i++ {
		p.Cases = append(p.Cases, c09Case{Layer: "mesh", Role: "client", Mode: "receptor", Auth: simnet.Pick(r, []string{"trusted", "trusted", "other"}),
			Valid: simnet.Pick(r, []string{"valid", "valid", "expired"}), Usage: simnet.Pick(r, []string{"client", "both", "server"}),
			Names: simnet.Pick(r, []string{"exp", "other", "multi", "none", "exp"}), Pins: simnet.Pick(r, []string{"none", "none", "match256", "nomatch"})})
	}
	if r.Bool(0.5) {
		p.Overlap = r.Range(2, 6)
	}
	for i := r.Range(1, 3); i > 0; i-- {
		sq := c09Seq{Side: simnet.Pick(r, []string{"server", "client"}), Pins: r.Bool(0.7)}
		for k := r.Range(2, 5); k > 0; k-- {
			sq.Peers = append(sq.Peers, simnet.Pick(r, []string{"pinned", "pinned", "unpinned", "untrusted", "wrongname"}))
			sq.Modes = append(sq.Modes, simnet.Pick(r, []string{"receptor", "receptor", "dns"}))
		}
		p.Seqs = append(p.Seqs, sq)
	}
	return p
}

// ---- a small CA ------------------------------------------------------------

type c09CA struct {
	cert *x509.Certificate
	key  *ecdsa.PrivateKey
	pem  []byte
}

func c09NewCA(cn string) *c09CA {
	key, _ := ecdsa.GenerateKey(elliptic.P256(), rand.Reader)
	now := time.Now()
	tpl := &x509.Certificate{SerialNumber: big.NewInt(1), Subject: pkix.Name{CommonName: cn}, NotBefore: now.Add(-24 * time.Hour), NotAfter: now.Add(240 * time.Hour),
		IsCA: true, BasicConstraintsValid: true, KeyUsage: x509.KeyUsageCertSign | x509.KeyUsageDigitalSignature}
	der, _ := x509.CreateCertificate(rand.Reader, tpl, tpl, &key.PublicKey, key)
	cert, _ := x509.ParseCertificate(der)
	return &c09CA{cert: cert, key: key, pem: pem.EncodeToMemory(&pem.Block{Type: "CERTIFICATE", Bytes: der})}
}

type c09Cert struct {
	der     []byte
	certPEM []byte
	keyPEM  []byte
}

// c09Issue builds the certificate a case describes.  expectedID / expectedDNS are what the verifier will look for.
func c09Issue(c c09Case, trusted, other *c09CA, expectedID, expectedDNS string, serial int64) *c09Cert {
	key, _ := ecdsa.GenerateKey(elliptic.P256(), rand.Reader)
	now := time.Now()
	tpl := &x509.Certificate{SerialNumber: big.NewInt(serial), Subject: pkix.Name{CommonName: "leaf"}, KeyUsage: x509.KeyUsageDigitalSignature}
	switch c.Valid {
	case "expired":
		tpl.NotBefore, tpl.NotAfter = now.Add(-2*time.Hour), now.Add(-time.Second)
	case "notyet":
		tpl.NotBefore, tpl.NotAfter = now.Add(10*time.Second), now.Add(2*time.Hour)
	case "expiring":
		tpl.NotBefore, tpl.NotAfter = now.Add(-time.Hour), now.Add(2*time.Second) // valid now, not when it is presented
	default:
		tpl.NotBefore, tpl.NotAfter = now.Add(-time.Hour), now.Add(time.Hour)
	}
	switch c.Usage {
	case "server":
		tpl.ExtKeyUsage = []x509.ExtKeyUsage{x509.ExtKeyUsageServerAuth}
	case "client":
		tpl.ExtKeyUsage = []x509.ExtKeyUsage{x509.ExtKeyUsageClientAuth}
	case "both":
		tpl.ExtKeyUsage = []x509.ExtKeyUsage{x509.ExtKeyUsageServerAuth, x509.ExtKeyUsageClientAuth}
	case "other":
		tpl.ExtKeyUsage = []x509.ExtKeyUsage{x509.ExtKeyUsageCodeSigning}
	}
	var ids []string
	switch c.Names {
	case "exp":
		ids = []string{expectedID}
	case "other":
		ids = []string{"somebody-else"}
	case "multi":
		ids = []string{"first", expectedID, "third"}
	case "multi-no":
		ids = []string{"first", expectedID + "x", "x" + expectedID}
	}
	var dns []string
	if c.DNS {
		dns = []string{expectedDNS}
	} else {
		dns = []string{"unrelated.example"}
	}
	san, err := utils.MakeReceptorSAN(dns, nil, ids)
	if err == nil {
		tpl.ExtraExtensions = []pkix.Extension{*san}
	}
	parent, signer := trusted.cert, trusted.key
	switch c.Auth {
	case "other":
		parent, signer = other.cert, other.key
	case "self":
		parent, signer = tpl, key
	}
	der, _ := x509.CreateCertificate(rand.Reader, tpl, parent, &key.PublicKey, signer)
	kb, _ := x509.MarshalECPrivateKey(key)
	return &c09Cert{der: der, certPEM: pem.EncodeToMemory(&pem.Block{Type: "CERTIFICATE", Bytes: der}), keyPEM: pem.EncodeToMemory(&pem.Block{Type: "EC PRIVATE KEY", Bytes: kb})}
}

func c09PinList(kind string, der []byte) []string {
	h256 := sha256.Sum256(der)
	h512 := sha512.Sum512(der)
	h224 := sha256.Sum224(der)
	bad := sha256.Sum256([]byte("not this certificate"))
	switch kind {
	case "match256":
		return []string{hex.EncodeToString(h256[:])}
	case "match512":
		return []string{hex.EncodeToString(h512[:])}
	case "match224":
		return []string{hex.EncodeToString(h224[:])}
	case "nomatch":
		return []string{hex.EncodeToString(bad[:])}
	case "wronglen":
		return []string{hex.EncodeToString(h256[:20])}
	case "mixed":
		return []string{hex.EncodeToString(bad[:]), hex.EncodeToString(h256[:])}
	}
	return nil
}

// c09Expect is the decision procedure written from the property text.
func c09Expect(c c09Case) (accept bool, why string) {
	if c.Auth != "trusted" {
		return false, "does not chain to the configured authority"
	}
	if c.Valid != "valid" {
		return false, "not currently valid"
	}
	okUsage := map[string]map[string]bool{"server": {"server": true, "both": true, "none": true}, "client": {"client": true, "both": true, "none": true}}
	if !okUsage[c.Role][c.Usage] {
		return false, "not usable for its role"
	}
	switch c.Pins {
	case "nomatch":
		return false, "matches no pinned fingerprint"
	case "wronglen", "match224":
		// the configuration accepts sha256 and sha512 fingerprints only; any other length is a configuration error
		return false, "pin list contains a fingerprint of a length that is not accepted"
	}
	if c.Role == "server" && c.Mode == "receptor" || c.Layer == "mesh" {
		if c.Names != "exp" && c.Names != "multi" {
			return false, "does not name the expected node ID"
		}
	}
	if c.Role == "server" && c.Mode == "dns" && !c.DNS {
		return false, "does not carry the expected DNS name"
	}
	return true, ""
}

func runC09(t *testing.T, planAny any, res *simnet.Result) {
	p := planAny.(*C09Plan)
	dir := simwork.NewRunDir()
	defer simwork.RemoveRunDir(dir)
	simnet.Bubble(t, func() {
		w := simnet.NewWorld(res.Seed)
		m := simnet.NewMesh(w)
		k := simnet.DefaultKnobs()
		k.ServiceAd = 0
		na, nb := m.AddNode("node-a", k), m.AddNode("node-b", k)
		l := m.AddLink(simnet.LinkCfg{Name: "L1", Latency: 2*time.Millisecond + 9*time.Nanosecond, FIFO: true}, "node-a", "node-b", 1)
		_ = m.Up(l)
		time.Sleep(3 * time.Second)
		trusted, other := c09NewCA("trusted-ca"), c09NewCA("other-ca")
		caFile := filepath.Join(dir, "ca.pem")
		_ = os.WriteFile(caFile, trusted.pem, 0o600)
		write := func(name string, c *c09Cert) (string, string) {
			cf, kf := filepath.Join(dir, name+".crt"), filepath.Join(dir, name+".key")
			_ = os.WriteFile(cf, c.certPEM, 0o600)
			_ = os.WriteFile(kf, c.keyPEM, 0o600)
			return cf, kf
		}
		good := c09Case{Auth: "trusted", Valid: "valid", Usage: "both", Names: "exp", DNS: true}
		classes := map[string]bool{}
		for ci, c := range p.Cases {
			serial := int64(1000 + ci)
			want, why := c09Expect(c)
			var got bool
			var detail string
			switch {
			case c.Layer == "mesh":
				// node-b runs a mutually authenticated stream listener; node-a dials with the certificate under test
				srvCert := c09Issue(c09Case{Auth: "trusted", Valid: "valid", Usage: "server", Names: "exp", DNS: true}, trusted, other, "node-b", "node-b", serial*10)
				cliCert := c09Issue(c, trusted, other, "node-a", "node-a", serial*10+1)
				scf, skf := write(fmt.Sprintf("msrv%d", ci), srvCert)
				ccf, ckf := write(fmt.Sprintf("mcli%d", ci), cliCert)
				scfg, err := netceptor.TLSServerConfig{Name: "s", Cert: scf, Key: skf, RequireClientCert: true, ClientCAs: caFile,
					PinnedClientCert: c09PinList(c.Pins, cliCert.der), SkipReceptorNamesCheck: true}.PrepareTLSServerConfig(nb.Net())
				if err != nil {
					got, detail = false, "server config refused: "+err.Error()
					break
				}
				ccfgBase, pins, err := netceptor.TLSClientConfig{Name: "c", Cert: ccf, Key: ckf, RootCAs: caFile, SkipReceptorNamesCheck: true}.PrepareTLSClientConfig(na.Net())
				if err != nil {
					got, detail = false, "client config refused: "+err.Error()
					break
				}
				_ = na.Net().SetClientTLSConfig(fmt.Sprintf("c%d", ci), ccfgBase, pins)
				ccfg, err := na.Net().GetClientTLSConfig(fmt.Sprintf("c%d", ci), "node-b", netceptor.ExpectedHostnameTypeReceptor)
				if err != nil {
					got, detail = false, err.Error()
					break
				}
				svc := fmt.Sprintf("tls%d", ci)
				li, err := nb.Net().Listen(svc, scfg)
				if err != nil {
					res.Violate("harness", "listen: %v", err)
					continue
				}
				accepted := make(chan error, 1)
				go func() {
					conn, err := li.Accept()
					if err == nil {
						buf := make([]byte, 4)
						_ = conn.SetReadDeadline(time.Now().Add(5 * time.Second))
						_, err = conn.Read(buf)
						if err == nil {
							_, _ = conn.Write([]byte("pong"))
						}
					}
					accepted <- err
				}()
				if c.Valid == "expiring" {
					time.Sleep(3 * time.Second)
				}
				ctx, cancel := context.WithTimeout(context.Background(), 8*time.Second)
				conn, err := na.Net().DialContext(ctx, "node-b", svc, ccfg)
				if err == nil {
					_, _ = conn.Write([]byte("ping"))
					buf := make([]byte, 4)
					_ = conn.SetReadDeadline(time.Now().Add(5 * time.Second))
					_, err = conn.Read(buf)
					_ = conn.CloseConnection()
				}
				cancel()
				got = err == nil
				if err != nil {
					detail = err.Error()
				}
				_ = li.Close()
				select {
				case <-accepted:
				case <-time.After(10 * time.Second):
				}
			case c.Role == "server":
				// the client (node-a) verifies the certificate of a server that should be node-b
				srvCert := c09Issue(c, trusted, other, "node-b", "node-b.example", serial*10)
				base, pins, err := netceptor.TLSClientConfig{Name: "c", RootCAs: caFile, PinnedServerCert: c09PinList(c.Pins, srvCert.der), SkipReceptorNamesCheck: true}.PrepareTLSClientConfig(na.Net())
				if err != nil {
					got, detail = false, "client config refused: "+err.Error()
					break
				}
				name := fmt.Sprintf("v%d", ci)
				_ = na.Net().SetClientTLSConfig(name, base, pins)
				ht, host := netceptor.ExpectedHostnameType(netceptor.ExpectedHostnameTypeReceptor), "node-b"
				if c.Mode == "dns" {
					ht, host = netceptor.ExpectedHostnameTypeDNS, "node-b.example"
				}
				ccfg, err := na.Net().GetClientTLSConfig(name, host, ht)
				if err != nil {
					got, detail = false, err.Error()
					break
				}
				if c.Valid == "expiring" {
					time.Sleep(3 * time.Second)
				}
				if c.Layer == "verify" {
					err = ccfg.VerifyPeerCertificate([][]byte{srvCert.der}, nil)
				} else {
					pair, _ := tls.X509KeyPair(srvCert.certPEM, srvCert.keyPEM)
					err = c09Handshake(w, &tls.Config{Certificates: []tls.Certificate{pair}, MinVersion: tls.VersionTLS12}, ccfg)
				}
				got = err == nil
				if err != nil {
					detail = err.Error()
				}
			default:
				// a server (node-b, backend or control-service listener) verifies a client certificate
				srvCert := c09Issue(good, trusted, other, "node-b", "node-b.example", serial*10)
				cliCert := c09Issue(c, trusted, other, "node-a", "node-a.example", serial*10+1)
				scf, skf := write(fmt.Sprintf("srv%d", ci), srvCert)
				scfg, err := netceptor.TLSServerConfig{Name: "s", Cert: scf, Key: skf, RequireClientCert: true, ClientCAs: caFile,
					PinnedClientCert: c09PinList(c.Pins, cliCert.der), SkipReceptorNamesCheck: true}.PrepareTLSServerConfig(nb.Net())
				if err != nil {
					got, detail = false, "server config refused: "+err.Error()
					break
				}
				if c.Valid == "expiring" {
					time.Sleep(3 * time.Second)
				}
				if c.Layer == "verify" {
					err = scfg.VerifyPeerCertificate([][]byte{cliCert.der}, nil)
				} else {
					pair, _ := tls.X509KeyPair(cliCert.certPEM, cliCert.keyPEM)
					pool := x509.NewCertPool()
					pool.AddCert(trusted.cert)
					err = c09Handshake(w, scfg, &tls.Config{Certificates: []tls.Certificate{pair}, RootCAs: pool, ServerName: "node-b.example", MinVersion: tls.VersionTLS12})
				}
				got = err == nil
				if err != nil {
					detail = err.Error()
				}
				// on the backend / control-service path there is no node ID to expect from a client
				if c.Names != "exp" && c.Names != "multi" && !want && why == "does not name the expected node ID" {
					want = true
				}
			}
			res.Add("cases_checked", 1)
			res.Add("layer_"+c.Layer, 1)
			classes[fmt.Sprintf("%+v", c)] = true
			if got != want {
				if want {
					res.Violate("c09:good-peer-refused|"+c.Layer, "case %+v: every condition holds but the peer was refused: %s", c, trunc(detail))
				} else {
					res.Violate("c09:bad-peer-accepted|"+c.Layer+"|"+strings.ReplaceAll(why, " ", "-"), "case %+v: the peer's certificate %s, yet the connection was established", c, why)
				}
				if len(res.Violations) > 4 {
					break
				}
			}
		}
		// ---- overlapping handshakes on one mutually authenticated stream listener: node-c connects with its own
		// certificate while node-a connects presenting the same certificate (node-c's identity).  However the two
		// handshakes interleave, node-a must be refused: the name checked is the node the packets come from.
		if p.Overlap > 0 && len(res.Violations) == 0 {
			ncn := m.AddNode("node-c", k)
			ncn.Start()
			l2 := m.AddLink(simnet.LinkCfg{Name: "L2", Latency: 2*time.Millisecond + 711*time.Nanosecond, FIFO: true}, "node-c", "node-b", 1)
			_ = m.Up(l2)
			time.Sleep(3 * time.Second)
			srvCert := c09Issue(c09Case{Auth: "trusted", Valid: "valid", Usage: "server", Names: "exp", DNS: true}, trusted, other, "node-b", "node-b", 700001)
			cCert := c09Issue(c09Case{Auth: "trusted", Valid: "valid", Usage: "client", Names: "exp", DNS: true}, trusted, other, "node-c", "node-c", 700002)
			scf, skf := write("ovsrv", srvCert)
			ccf, ckf := write("ovcli", cCert)
			scfg, err := netceptor.TLSServerConfig{Name: "s", Cert: scf, Key: skf, RequireClientCert: true, ClientCAs: caFile, SkipReceptorNamesCheck: true}.PrepareTLSServerConfig(nb.Net())
			if err == nil {
				cfgFor := func(n *simnet.Node) *tls.Config {
					base, pins, err := netceptor.TLSClientConfig{Name: "c", Cert: ccf, Key: ckf, RootCAs: caFile, SkipReceptorNamesCheck: true}.PrepareTLSClientConfig(n.Net())
					if err != nil {
						return nil
					}
					_ = n.Net().SetClientTLSConfig("ov", base, pins)
					c, _ := n.Net().GetClientTLSConfig("ov", "node-b", netceptor.ExpectedHostnameTypeReceptor)
					return c
				}
				cfgA, cfgC := cfgFor(na), cfgFor(ncn)
				li, lerr := nb.Net().Listen("ovl", scfg)
				if cfgA != nil && cfgC != nil && lerr == nil {
					var amu sync.Mutex
					from := map[string]int{}
					go func() {
						for {
							conn, err := li.Accept()
							if err != nil {
								return
							}
							amu.Lock()
							from[strings.Split(conn.RemoteAddr().String(), ":")[0]]++
							amu.Unlock()
							go func() {
								buf := make([]byte, 4)
								_ = conn.SetReadDeadline(time.Now().Add(5 * time.Second))
								if _, err := conn.Read(buf); err == nil {
									_, _ = conn.Write([]byte("pong"))
								}
								_ = conn.Close()
							}()
						}
					}()
					dial := func(n *simnet.Node, cfg *tls.Config) bool {
						ctx, cancel := context.WithTimeout(context.Background(), 6*time.Second)
						defer cancel()
						conn, err := n.Net().DialContext(ctx, "node-b", "ovl", cfg)
						if err != nil {
							return false
						}
						defer conn.CloseConnection()
						_, _ = conn.Write([]byte("ping"))
						buf := make([]byte, 4)
						_ = conn.SetReadDeadline(time.Now().Add(5 * time.Second))
						_, err = conn.Read(buf)
						return err == nil
					}
					impostorIn, legitIn := 0, 0
					for round := 0; round < p.Overlap; round++ {
						off := time.Duration(simnet.H(res.Seed, "overlap", round)%8000) * time.Microsecond
						var wg sync.WaitGroup
						wg.Add(2)
						go func() {
							defer wg.Done()
							if dial(na, cfgA) {
								impostorIn++
							}
						}()
						go func() {
							defer wg.Done()
							time.Sleep(off)
							if dial(ncn, cfgC) {
								legitIn++
							}
						}()
						wg.Wait()
						time.Sleep(500 * time.Millisecond)
					}
					_ = li.Close()
					amu.Lock()
					asA := from["node-a"]
					amu.Unlock()
					res.Add("overlapping_handshake_rounds", int64(p.Overlap))
					res.Add("probe_legit_overlapping_dials_accepted", int64(legitIn))
					if impostorIn > 0 || asA > 0 {
						res.Violate("c09:bad-peer-accepted|mesh-overlap|presents-another-node's-identity", "node-a dialled %d times presenting node-c's certificate while node-c was connecting too: %d of its dials succeeded, the listener accepted %d connections as coming from node-a", p.Overlap, impostorIn, asA)
					}
				}
			}
		}
		// ---- histories on one long-lived configuration
		for si, sq := range p.Seqs {
			if len(res.Violations) > 4 {
				break
			}
			serial := int64(900000 + si*100)
			mk := func(kind, id, dns string, n int64) *c09Cert {
				c := good
				switch kind {
				case "untrusted":
					c.Auth = "other"
				case "wrongname":
					c.Names, c.DNS = "other", false
				}
				return c09Issue(c, trusted, other, id, dns, serial+n)
			}
			if sq.Side == "server" {
				// one tls-server configuration of node-b; the clients come one after the other
				pinned := mk("pinned", "node-a", "node-a.example", 1)
				srvCert := c09Issue(good, trusted, other, "node-b", "node-b.example", serial)
				scf, skf := write(fmt.Sprintf("seqsrv%d", si), srvCert)
				cfg := netceptor.TLSServerConfig{Name: "s", Cert: scf, Key: skf, RequireClientCert: true, ClientCAs: caFile, SkipReceptorNamesCheck: true}
				if sq.Pins {
					cfg.PinnedClientCert = c09PinList("match256", pinned.der)
				}
				scfg, err := cfg.PrepareTLSServerConfig(nb.Net())
				if err != nil {
					res.Violate("harness", "seq server config: %v", err)
					continue
				}
				pool := x509.NewCertPool()
				pool.AddCert(trusted.cert)
				for pi, kind := range sq.Peers {
					cert := pinned
					if kind != "pinned" {
						cert = mk(kind, "node-a", "node-a.example", int64(2+pi))
					}
					want := kind == "pinned" || (!sq.Pins && kind != "untrusted") // (a client's names are not checked on this path)
					pair, _ := tls.X509KeyPair(cert.certPEM, cert.keyPEM)
					err := c09Handshake(w, scfg.Clone(), &tls.Config{Certificates: []tls.Certificate{pair}, RootCAs: pool, ServerName: "node-b.example", MinVersion: tls.VersionTLS12})
					res.Add("seq_steps", 1)
					if (err == nil) != want {
						if want {
							res.Violate("c09:good-peer-refused|seq-server", "history %v step %d (%s, pins=%v): refused: %v", sq.Peers, pi, kind, sq.Pins, err)
						} else {
							res.Violate("c09:bad-peer-accepted|seq-server|"+kind, "history %v (pins=%v): client %d (%s) was accepted by a listener configuration that had served other clients before", sq.Peers, sq.Pins, pi, kind)
						}
						break
					}
				}
				continue
			}
			// one named tls-client configuration of node-a, looked up again for every connection
			pinned := mk("pinned", "node-b", "node-b.example", 1)
			ccfgIn := netceptor.TLSClientConfig{Name: "c", RootCAs: caFile, SkipReceptorNamesCheck: true}
			if sq.Pins {
				ccfgIn.PinnedServerCert = c09PinList("match256", pinned.der)
			}
			base, pins, err := ccfgIn.PrepareTLSClientConfig(na.Net())
			if err != nil {
				res.Violate("harness", "seq client config: %v", err)
				continue
			}
			name := fmt.Sprintf("seq%d", si)
			_ = na.Net().SetClientTLSConfig(name, base, pins)
			for pi, kind := range sq.Peers {
				mode := "receptor"
				if pi < len(sq.Modes) {
					mode = sq.Modes[pi]
				}
				ht, host := netceptor.ExpectedHostnameType(netceptor.ExpectedHostnameTypeReceptor), "node-b"
				if mode == "dns" {
					ht, host = netceptor.ExpectedHostnameTypeDNS, "node-b.example"
				}
				ccfg, err := na.Net().GetClientTLSConfig(name, host, ht)
				if err != nil {
					res.Violate("c09:good-peer-refused|seq-client", "lookup %d of %s: %v", pi, name, err)
					break
				}
				cert := pinned
				if kind != "pinned" {
					cert = mk(kind, "node-b", "node-b.example", int64(2+pi))
				}
				want := kind == "pinned" || (!sq.Pins && kind == "unpinned")
				pair, _ := tls.X509KeyPair(cert.certPEM, cert.keyPEM)
				err = c09Handshake(w, &tls.Config{Certificates: []tls.Certificate{pair}, MinVersion: tls.VersionTLS12}, ccfg)
				res.Add("seq_steps", 1)
				if (err == nil) != want {
					if want {
						res.Violate("c09:good-peer-refused|seq-client", "history %v modes %v step %d (%s/%s, pins=%v): refused: %v", sq.Peers, sq.Modes, pi, kind, mode, sq.Pins, err)
					} else {
						res.Violate("c09:bad-peer-accepted|seq-client|"+kind, "history %v modes %v (pins=%v): at lookup %d (%s) a server whose certificate is %s was accepted", sq.Peers, sq.Modes, sq.Pins, pi, mode, kind)
					}
					break
				}
			}
		}
		res.SimSeconds = w.Now().Seconds()
		res.LogHash, res.LogLines = w.CanonicalLogHash()
		res.Merge(w.Stats())
		res.Class = fmt.Sprintf("%x", simnet.H(0, strings.Join(simnet.SortedKeys(classes), ";")))
		for _, n := range m.Nodes {
			n.Stop()
		}
		time.Sleep(3 * time.Second)
	})
}

// c09Handshake runs a TLS handshake plus one byte each way over a simulated pipe.
func c09Handshake(w *simnet.World, server, client *tls.Config) error {
	a, b := w.Pipe("tls-server", "tls-client", "tcp")
	sc, cc := tls.Server(a, server), tls.Client(b, client)
	errs := make(chan error, 2)
	go func() {
		_ = a.SetReadDeadline(time.Now().Add(10 * time.Second))
		err := sc.Handshake()
		if err == nil {
			buf := make([]byte, 1)
			if _, err = sc.Read(buf); err == nil {
				_, err = sc.Write([]byte{2})
			}
		}
		errs <- err
		_ = a.Close()
	}()
	go func() {
		_ = b.SetReadDeadline(time.Now().Add(10 * time.Second))
		err := cc.Handshake()
		if err == nil {
			if _, err = cc.Write([]byte{1}); err == nil {
				buf := make([]byte, 1)
				_, err = cc.Read(buf)
			}
		}
		errs <- err
		_ = b.Close()
	}()
	e1, e2 := <-errs, <-errs
	if e1 != nil {
		return e1
	}
	return e2
}

func TestC09(t *testing.T) {
	quiet()
	defer simwork.CleanupScratch()
	simnet.RunCheck(t, simnet.Check{ID: "C09", Gen: genC09, NewPlan: func() any { return &C09Plan{} }, Run: runC09})
}
