package checks

import (
	"fmt"
	"regexp"
	"strings"
	"sync"
	"syscall"
	"testing"
	"time"

	"github.com/ansible/receptor/pkg/netceptor"
	"verif/sim/simnet"
)

// C12 — firewall: first matching rule decides at every node; bad rules are refused.

type c12Field struct {
	Key  string `json:"key"`  // as written (any case)
	Kind string `json:"kind"` // s: string, i: int, n: nil, l: list, b: bool
	Val  string `json:"val"`
}

type c12Rule []c12Field

type C12Plan struct {
	R0     []c12Rule `json:"rules_origin"`
	R1     []c12Rule `json:"rules_transit"`
	R2     []c12Rule `json:"rules_dest"`
	Shrink []string  `json:"_shrink"`
}

func (p *C12Plan) rules() [3][]c12Rule { return [3][]c12Rule{p.R0, p.R1, p.R2} }

var c12Nodes = []string{"alpha", "b", "ab"}
var c12Services = []string{"s1", "s2", "ctl", "a"}

var c12GoodPatterns = []string{"alpha", "b", "ab", "s1", "s2", "ctl", "a", "unreach", "nosuch",
	"/a|b/", "/alpha|ab/", "/a.*/", "/.*/", "//", "/[ab]+/", "/s./", "/s[12]/", "/^a$/", "/a$|^b/", "/(?i)ALPHA/", "/ctl|unreach/", "/.|../", "/a?b?/", "/(a|b)(b)?/", "/unreach/"}
var c12BadPatterns = []string{"/", "/[/", "/zzz", "/(/", "/a(b/", "/*/", "/\\/"}

func c12Case(r *simnet.Rng, s string) string {
	if s == "" {
		return s
	}
	switch r.Intn(3) {
	case 0:
		return s
	case 1:
		return strings.ToUpper(s)
	default:
		return strings.ToUpper(s[:1]) + s[1:]
	}
}

func genC12(seed uint64, tier string) any {
	r := simnet.NewRng(seed, "c12")
	p := &C12Plan{Shrink: []string{"rules_origin", "rules_transit", "rules_dest"}}
	var rules [3][]c12Rule
	fields := []string{"fromnode", "tonode", "fromservice", "toservice"}
	for n := 0; n < 3; n++ {
		nr := r.Intn(5)
		if r.Bool(0.2) {
			nr = 0
		}
		for i := 0; i < nr; i++ {
			var rule c12Rule
			action := simnet.Pick(r, []string{"accept", "reject", "drop", "drop", "reject"})
			bad := r.Bool(0.08)
			badAt := r.Intn(5)
			if bad && badAt == 0 {
				action = simnet.Pick(r, []string{"deny", "", "allow", "accept "})
			}
			rule = append(rule, c12Field{Key: c12Case(r, "action"), Kind: "s", Val: c12Case(r, action)})
			for fi, f := range fields {
				if !r.Bool(0.4) {
					continue
				}
				fld := c12Field{Key: c12Case(r, f), Kind: "s", Val: simnet.Pick(r, c12GoodPatterns)}
				if bad && badAt == fi+1 {
					switch r.Intn(3) {
					case 0:
						fld.Val = simnet.Pick(r, c12BadPatterns)
					case 1:
						fld.Kind = simnet.Pick(r, []string{"i", "n", "l", "b"})
					default:
						fld.Key = simnet.Pick(r, []string{"fromnod", "to", "service", "from node"})
					}
				}
				rule = append(rule, fld)
			}
			rules[n] = append(rules[n], rule)
		}
	}
	p.R0, p.R1, p.R2 = rules[0], rules[1], rules[2]
	return p
}

// ---- reference evaluator (written from the property text) -------------------

type c12Pkt struct{ fromNode, toNode, fromSvc, toSvc string }

type c12RefRule struct {
	action string
	pats   map[string]string
}

// c12Interpret returns the rule list as the property reads it, or ok=false when
// anything in it cannot be interpreted.
func c12Interpret(rules []c12Rule) ([]c12RefRule, bool) {
	var out []c12RefRule
	for _, rule := range rules {
		rr := c12RefRule{pats: map[string]string{}}
		for _, f := range rule {
			if f.Kind != "s" {
				return nil, false
			}
			switch k := strings.ToLower(f.Key); k {
			case "action":
				rr.action = strings.ToLower(f.Val)
			case "fromnode", "tonode", "fromservice", "toservice":
				if f.Val == "" {
					continue
				}
				if strings.HasPrefix(f.Val, "/") {
					if len(f.Val) < 2 || !strings.HasSuffix(f.Val, "/") {
						return nil, false
					}
					if _, err := regexp.Compile(f.Val[1 : len(f.Val)-1]); err != nil {
						return nil, false
					}
				}
				rr.pats[k] = f.Val
			default:
				return nil, false
			}
		}
		switch rr.action {
		case "accept", "reject", "drop":
		default:
			return nil, false
		}
		out = append(out, rr)
	}
	return out, true
}

func c12Match(pat, val string) bool {
	if strings.HasPrefix(pat, "/") {
		re := regexp.MustCompile("^(?:" + pat[1:len(pat)-1] + ")$")
		return re.MatchString(val)
	}
	return pat == val
}

func c12Eval(rules []c12RefRule, p c12Pkt) string {
	for _, r := range rules {
		vals := map[string]string{"fromnode": p.fromNode, "tonode": p.toNode, "fromservice": p.fromSvc, "toservice": p.toSvc}
		ok := true
		for k, pat := range r.pats {
			if !c12Match(pat, vals[k]) {
				ok = false
			}
		}
		if ok {
			return r.action
		}
	}
	return "accept"
}

func c12Data(rules []c12Rule) []netceptor.FirewallRuleData {
	var out []netceptor.FirewallRuleData
	for _, rule := range rules {
		d := netceptor.FirewallRuleData{}
		for _, f := range rule {
			switch f.Kind {
			case "s":
				d[f.Key] = f.Val
			case "i":
				d[f.Key] = 5
			case "n":
				d[f.Key] = nil
			case "l":
				d[f.Key] = []interface{}{f.Val}
			case "b":
				d[f.Key] = true
			}
		}
		out = append(out, d)
	}
	return out
}

func runC12(t *testing.T, planAny any, res *simnet.Result) {
	pp := planAny.(*C12Plan)
	p := struct{ Rules [3][]c12Rule }{pp.rules()}
	simnet.Bubble(t, func() {
		w := simnet.NewWorld(res.Seed)
		w.KeepPayload = true
		m := simnet.NewMesh(w)
		k := simnet.DefaultKnobs()
		k.ServiceAd = 0
		k.RouteUpdate = time.Hour
		k.MaxIdle = 3 * time.Hour
		for _, id := range c12Nodes {
			m.AddNode(id, k)
		}
		l1 := m.AddLink(simnet.LinkCfg{Name: "L1", Latency: time.Millisecond + 3*time.Nanosecond, FIFO: true}, c12Nodes[0], c12Nodes[1], 1)
		l2 := m.AddLink(simnet.LinkCfg{Name: "L2", Latency: time.Millisecond + 5*time.Nanosecond, FIFO: true, Framed: true}, c12Nodes[1], c12Nodes[2], 1)
		_ = m.Up(l1)
		_ = m.Up(l2)
		time.Sleep(3 * time.Second)
		// configure: a list that cannot be interpreted must be refused, and then nothing of it takes effect
		ref := [3][]c12RefRule{}
		accepted, refused := 0, 0
		for i, id := range c12Nodes {
			want, ok := c12Interpret(p.Rules[i])
			fns, err := netceptor.ParseFirewallRules(c12Data(p.Rules[i]))
			switch {
			case !ok && err == nil:
				res.Violate("c12:bad-rules-accepted", "node %s: rule list %v contains something that cannot be interpreted but was accepted", id, p.Rules[i])
				return
			case ok && err != nil:
				res.Violate("c12:good-rules-refused", "node %s: rule list %v refused: %v", id, p.Rules[i], err)
				return
			case ok:
				accepted++
				ref[i] = want
				_ = m.Nodes[id].Net().AddFirewallRules(fns, true)
			default:
				refused++ // refused: the node runs without rules
			}
		}
		// sockets
		type sock struct {
			pc   netceptor.PacketConner
			unr  chan netceptor.UnreachableNotification
			got  chan string
			done chan struct{}
		}
		socks := map[string]*sock{}
		for _, id := range c12Nodes {
			for _, svc := range c12Services {
				pc, err := m.Nodes[id].Net().ListenPacket(svc)
				if err != nil {
					res.Violate("harness", "listen: %v", err)
					return
				}
				s := &sock{pc: pc, got: make(chan string, 64), done: make(chan struct{})}
				s.unr = pc.SubscribeUnreachable(s.done)
				socks[id+"/"+svc] = s
				go func() {
					buf := make([]byte, 200)
					for {
						n, addr, err := pc.ReadFrom(buf)
						if err != nil {
							return
						}
						s.got <- addr.String() + "|" + string(buf[:n])
					}
				}()
			}
		}
		idx := map[string]int{}
		for i, id := range c12Nodes {
			idx[id] = i
		}
		path := func(a, b string) []string {
			i, j := idx[a], idx[b]
			out := []string{}
			if i <= j {
				for x := i; x <= j; x++ {
					out = append(out, c12Nodes[x])
				}
			} else {
				for x := i; x >= j; x-- {
					out = append(out, c12Nodes[x])
				}
			}
			return out
		}
		expect := func(pk c12Pkt) (string, string) { // outcome, rejecting node
			for _, n := range path(pk.fromNode, pk.toNode) {
				switch c12Eval(ref[idx[n]], pk) {
				case "drop":
					return "gone", n
				case "reject":
					notice := c12Pkt{fromNode: n, toNode: pk.fromNode, fromSvc: "unreach", toSvc: "unreach"}
					for _, nn := range path(n, pk.fromNode) {
						if c12Eval(ref[idx[nn]], notice) != "accept" {
							return "gone", n
						}
					}
					return "notice", n
				}
			}
			return "delivered", ""
		}
		outcomes := map[string]int{}
		tag := 0
		for _, from := range c12Nodes {
			for _, to := range c12Nodes {
				for _, fs := range []string{"s1", "ctl"} {
					for _, ts := range []string{"s1", "s2", "a"} {
						pk := c12Pkt{from, to, fs, ts}
						want, at := expect(pk)
						tag++
						payload := fmt.Sprintf("pkt-%d", tag)
						s := socks[from+"/"+fs]
						_, werr := s.pc.WriteTo([]byte(payload), m.Nodes[from].Net().NewAddr(to, ts))
						time.Sleep(40 * time.Millisecond)
						simnet.Quiesce()
						got := "gone"
						dst := socks[to+"/"+ts]
						select {
						case g := <-dst.got:
							if g != from+":"+fs+"|"+payload {
								res.Violate("c12:wrong-datagram", "listener %s/%s received %q while %v was in flight", to, ts, g, pk)
							}
							got = "delivered"
						default:
						}
						var note *netceptor.UnreachableNotification
						select {
						case n := <-s.unr:
							note = &n
							if got == "delivered" {
								res.Violate("c12:delivered-and-notice", "%v was delivered and also produced a notice %+v", pk, n)
							}
							got = "notice"
						default:
						}
						// nobody else may hear anything about this packet
						for name, o := range socks {
							if o == s {
								continue
							}
							select {
							case n := <-o.unr:
								res.Violate("c12:notice-wrong-socket", "socket %s received notice %+v for packet %v", name, n, pk)
							default:
							}
							if o != dst {
								select {
								case g := <-o.got:
									res.Violate("c12:wrong-listener", "listener %s received %q, packet was %v", name, g, pk)
								default:
								}
							}
						}
						outcomes[want]++
						if got != want {
							res.Violate("c12:decision|"+want+"->"+got, "packet %v: rules say %s (deciding node %q), observed %s (write err %v)\nrules origin..dest: %v", pk, want, at, got, werr, p.Rules)
							continue
						}
						if want == "notice" {
							if note.Problem != netceptor.ProblemRejected || note.FromNode != from || note.ToNode != to || note.FromService != fs || note.ToService != ts || note.ReceivedFromNode != at {
								res.Violate("c12:notice-fields", "packet %v rejected at %s: notice %+v does not name the original addresses", pk, at, *note)
							}
						}
						if len(res.Violations) > 5 {
							goto out
						}
					}
				}
			}
		}
	out:
		// ---- the rule list is replaced (a reload) while a packet is half-way through it.  Old and new list decide
		// this packet the same way (reject), only their order differs, so whatever list the packet is judged by, it
		// is rejected - unless it is judged by a mixture of the two.
		if len(res.Violations) == 0 {
			for _, id := range c12Nodes {
				_ = m.Nodes[id].Net().AddFirewallRules(nil, true)
			}
			time.Sleep(100 * time.Millisecond)
			for _, s := range socks { // forget what the first phase left behind
				for len(s.got) > 0 {
					<-s.got
				}
				for more := true; more; {
					select {
					case <-s.unr:
						simnet.Quiesce()
					default:
						more = false
					}
				}
			}
			dstNode := c12Nodes[int(simnet.H(res.Seed, "reload-node")%2)+1]
			parse := func(d netceptor.FirewallRuleData) netceptor.FirewallRuleFunc {
				fns, err := netceptor.ParseFirewallRules([]netceptor.FirewallRuleData{d})
				if err != nil || len(fns) != 1 {
					return func(*netceptor.MessageData) netceptor.FirewallResult { return netceptor.FirewallResultContinue }
				}
				return fns[0]
			}
			acceptA := parse(netceptor.FirewallRuleData{"action": "accept", "toservice": "s1"})
			rejectB := parse(netceptor.FirewallRuleData{"action": "reject", "toservice": "s2"})
			noop := func(*netceptor.MessageData) netceptor.FirewallResult { return netceptor.FirewallResultContinue }
			nc := m.Nodes[dstNode].Net()
			var once sync.Once
			replaced := make(chan struct{})
			probe := func(md *netceptor.MessageData) netceptor.FirewallResult {
				if md.ToService == "s2" {
					once.Do(func() {
						go func() {
							_ = nc.AddFirewallRules([]netceptor.FirewallRuleFunc{rejectB, noop, acceptA}, true)
							close(replaced)
						}()
						// real time, not simulated: the reload either completes inside this window or waits for the lock
						ts := syscall.Timespec{Nsec: 3_000_000}
						_ = syscall.Nanosleep(&ts, nil)
						w.Count("fault_reload_during_evaluation", 1)
					})
				}
				return netceptor.FirewallResultContinue
			}
			_ = nc.AddFirewallRules([]netceptor.FirewallRuleFunc{probe, acceptA, rejectB}, true)
			src := socks[c12Nodes[0]+"/ctl"]
			dst := socks[dstNode+"/s2"]
			_, werr := src.pc.WriteTo([]byte("reload-probe"), m.Nodes[c12Nodes[0]].Net().NewAddr(dstNode, "s2"))
			time.Sleep(300 * time.Millisecond)
			simnet.Quiesce()
			select {
			case <-replaced:
			default:
				res.Add("probe_reload_not_finished", 1)
			}
			delivered, notices := len(dst.got), 0
			for more := true; more; {
				select {
				case n := <-src.unr:
					if n.Problem == netceptor.ProblemRejected && n.ToService == "s2" {
						notices++
					}
					simnet.Quiesce()
				default:
					more = false
				}
			}
			if delivered != 0 || notices != 1 {
				res.Violate("c12:decision|reload-during-evaluation", "a packet to a service that the old and the new rule list both reject was judged while the list was being replaced: delivered %d times, %d notices (write err %v)", delivered, notices, werr)
			}
		}
		res.SimSeconds = w.Now().Seconds()
		res.LogHash, res.LogLines = w.CanonicalLogHash()
		res.Merge(w.Stats())
		for o, c := range outcomes {
			res.Add("expected_"+o, int64(c))
		}
		res.Add("rule_lists_refused", int64(refused))
		res.Class = fmt.Sprintf("rules=%d/%d/%d refused=%d outcomes=%d-%d-%d", len(p.Rules[0]), len(p.Rules[1]), len(p.Rules[2]), refused,
			outcomes["delivered"], outcomes["gone"], outcomes["notice"])
		for _, s := range socks {
			close(s.done)
			_ = s.pc.Close()
		}
		for _, n := range m.Nodes {
			n.Stop()
		}
		time.Sleep(3 * time.Second)
	})
}

func TestC12(t *testing.T) {
	quiet()
	simnet.RunCheck(t, simnet.Check{ID: "C12", Gen: genC12, NewPlan: func() any { return &C12Plan{} }, Run: runC12})
}
