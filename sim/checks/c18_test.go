package checks

import (
	"fmt"
	"os"
	"reflect"
	"sort"
	"strings"
	"sync"
	"sync/atomic"
	"testing"
	"time"

	"github.com/ansible/receptor/pkg/netceptor"
	"verif/sim/simnet"
)

// C18 — service advertisements converge; a withdrawn service is never resurrected.

type c18Event struct {
	AtMs int    `json:"at_ms"`
	Kind string `json:"kind"` // open close join
	Node int    `json:"node"`
	Svc  string `json:"svc"`
	Strm bool   `json:"stream,omitempty"`
	Tag  string `json:"tag,omitempty"`
}

type c18Link struct {
	A     int `json:"a"`
	B     int `json:"b"`
	LatMs int `json:"lat_ms"`
}

type C18Plan struct {
	N          int       `json:"n"`
	Links      []c18Link `json:"links"`
	ServiceAdS int       `json:"service_ad_s"`
	LateJoin   int       `json:"late_join"` // node index that joins late (-1: none)
	// that many times a listener is closed by its owner in the middle of a periodic advertisement round of its
	// node, between the collection of the advertisements and their transmission
	CloseInAdRound int        `json:"close_in_ad_round"`
	ReorderMs      int        `json:"reorder_ms"` // datagram links deliver out of order within this window (0: in order)
	Events         []c18Event `json:"events"`
	Shrink         []string   `json:"_shrink"`
}

func genC18(seed uint64, tier string) any {
	r := simnet.NewRng(seed, "c18")
	p := &C18Plan{Shrink: []string{"events"}, LateJoin: -1}
	p.N = r.Range(3, 6)
	p.ServiceAdS = simnet.Pick(r, []int{3, 5, 10, 60})
	for i := 1; i < p.N; i++ {
		p.Links = append(p.Links, c18Link{A: r.Intn(i), B: i, LatMs: r.Range(1, 400)})
	}
	// cycles and nodes of degree >= 3: an advertisement and its withdrawal can take different paths
	for e := r.Range(1, p.N); e > 0; e-- {
		a, b := r.Intn(p.N), r.Intn(p.N)
		ok := a != b
		for _, l := range p.Links {
			if (l.A == a && l.B == b) || (l.A == b && l.B == a) {
				ok = false
			}
		}
		if ok {
			p.Links = append(p.Links, c18Link{A: a, B: b, LatMs: r.Range(1, 400)})
		}
	}
	if r.Bool(0.3) {
		p.LateJoin = r.Intn(p.N)
	}
	n := r.Range(3, 12)
	if tier == "thorough" {
		n = r.Range(5, 30)
	}
	at := 4000
	open := map[string]bool{}
	for i := 0; i < n; i++ {
		at += simnet.Pick(r, []int{1, 5, 50, 300, 1000, 5000, 20000}) + r.Intn(10)
		ev := c18Event{AtMs: at, Node: r.Intn(p.N), Svc: simnet.Pick(r, []string{"sa", "sb", "control"}), Strm: r.Bool(0.2)}
		key := fmt.Sprintf("%d/%s", ev.Node, ev.Svc)
		if open[key] {
			ev.Kind = "close"
			open[key] = false
		} else {
			ev.Kind = "open"
			ev.Tag = simnet.Pick(r, []string{"", "x", "y"})
			open[key] = true
		}
		p.Events = append(p.Events, ev)
		if ev.Kind == "close" && r.Bool(0.35) {
			// closed and opened again at once: the withdrawal and the new advertisement race through the mesh
			at += simnet.Pick(r, []int{1, 3, 20, 120})
			p.Events = append(p.Events, c18Event{AtMs: at, Kind: "open", Node: ev.Node, Svc: ev.Svc, Strm: ev.Strm, Tag: simnet.Pick(r, []string{"", "x", "y", "z"})})
			open[key] = true
		}
	}
	p.CloseInAdRound = r.Range(0, 3)
	p.ReorderMs = simnet.Pick(r, []int{0, 0, 30, 250, 7000}) // (a new listener is advertised 5 s after it was opened: only a longer delay lets its predecessor's withdrawal arrive after it)
	if r.Bool(0.12) && len(p.Events) > 2 {
		// a node dies without closing anything: its services are not "open on a live node" any more
		i := r.Range(1, len(p.Events)-1)
		p.Events[i].Kind = "stop"
	}
	return p
}

type c18Closer interface{ Close() error }

var errMuxCollision = fmt.Errorf("quic-go's process-wide connection multiplexer still knows this node:service")

// c18Listen opens an advertised stream listener.  quic-go keeps a process-wide registry of packet connections keyed
// by their local address ("node:service" here) and panics on a second registration; a listener of an earlier run
// of this process whose teardown had not finished when its bubble ended (seen twice in 4000 runs) would take the
// whole worker down with it.  That is neither receptor's doing nor this run's subject: the open is skipped.
func c18Listen(nc *netceptor.Netceptor, svc string, tags map[string]string) (li *netceptor.Listener, err error) {
	defer func() {
		if r := recover(); r != nil {
			if fmt.Sprint(r) == "connection already exists" {
				li, err = nil, errMuxCollision
				return
			}
			panic(r)
		}
	}()
	return nc.ListenAndAdvertise(svc, nil, tags)
}

func runC18(t *testing.T, planAny any, res *simnet.Result) {
	p := planAny.(*C18Plan)
	simnet.Bubble(t, func() {
		w := simnet.NewWorld(res.Seed)
		w.MsgBudget = 60000
		m := simnet.NewMesh(w)
		k := simnet.DefaultKnobs()
		k.ServiceAd = time.Duration(p.ServiceAdS) * time.Second
		k.RouteUpdate = 5 * time.Second
		k.MaxIdle = 13 * time.Second
		ids := make([]string, p.N)
		for i := range ids {
			ids[i] = fmt.Sprintf("n%d", i)
			m.AddNode(ids[i], k)
		}
		var links []*simnet.Link
		for i, pl := range p.Links {
			if pl.A >= p.N || pl.B >= p.N {
				continue
			}
			name := fmt.Sprintf("L%d", i+1)
			l := m.AddLink(simnet.LinkCfg{Name: name, Latency: time.Duration(pl.LatMs)*time.Millisecond + time.Duration(simnet.H(res.Seed, "lat", name)%99991)*time.Nanosecond,
				FIFO: true, AdJitter: time.Duration(p.ReorderMs) * time.Millisecond, Framed: i%2 == 1}, ids[pl.A], ids[pl.B], simnet.DyadicCost(1, i*13+3))
			links = append(links, l)
			if p.LateJoin >= 0 && (pl.A == p.LateJoin || pl.B == p.LateJoin) {
				continue
			}
			_ = m.Up(l)
		}
		// monitor: what every observer lists for (owner, service), sampled at every wire event and at checkpoints
		type okey struct{ obs, owner, svc string }
		lastTime := map[okey]time.Time{}
		withdrawnAt := map[okey]time.Time{} // newest withdrawal time handed to the observer
		listed := map[okey]time.Time{}
		sample := func() {
			for _, id := range ids {
				n := m.Nodes[id]
				if !n.Up() {
					continue
				}
				now := map[okey]bool{}
				ads := n.Net().Status().Advertisements
				for _, ad := range ads {
					now[okey{id, ad.NodeID, ad.Service}] = true
				}
				for kk, t := range listed {
					if kk.obs != id || now[kk] {
						continue
					}
					// an entry went away: only a withdrawal at least as new as the entry may do that
					if wt, ok := withdrawnAt[kk]; !ok || wt.Before(t) {
						if os.Getenv("VERIF_DEBUG") != "" {
							for _, r := range w.Wire() {
								if r.Ad != nil && r.Ad.NodeID == kk.owner && r.Ad.Service == kk.svc {
									fmt.Fprintf(os.Stderr, "DBG %v %s>%s cancel=%v t=%d fate=%s delivered=%v\n", r.At, r.From, r.To, r.Ad.Cancel, r.Ad.Time.UnixNano(), r.Fate, w.DeliveredAt(r))
								}
							}
							fmt.Fprintf(os.Stderr, "DBG now=%v\n", w.Now())
						}
						res.Violate("c18:newer-advertisement-removed", "%s no longer lists %s/%s (advertised at %d); the newest withdrawal it has been handed is from %d", id, kk.owner, kk.svc, t.UnixNano(), wt.UnixNano())
					}
					delete(listed, kk)
				}
				for _, ad := range ads {
					if ad.NodeID != id {
						listed[okey{id, ad.NodeID, ad.Service}] = ad.Time
					}
				}
				for _, ad := range ads {
					if ad.NodeID == id {
						continue // own entries carry "now"
					}
					kk := okey{id, ad.NodeID, ad.Service}
					if lt, ok := lastTime[kk]; ok && ad.Time.Before(lt) {
						res.Violate("c18:older-replaced-newer", "%s lists %s/%s with time %v after having listed %v", id, ad.NodeID, ad.Service, ad.Time.UnixNano(), lt.UnixNano())
					}
					lastTime[kk] = ad.Time
					if wt, ok := withdrawnAt[kk]; ok && !ad.Time.After(wt) {
						res.Violate("c18:resurrected", "%s lists %s/%s (time %d) although it had learned of its withdrawal at time %d", id, ad.NodeID, ad.Service, ad.Time.UnixNano(), wt.UnixNano())
					}
				}
			}
		}
		// withdrawals are learned when a cancel message is handed to a node
		noteWithdrawals := func() {
			for _, r := range w.Wire() {
				if r.Ad == nil || !r.Ad.Cancel {
					continue
				}
				for range w.DeliveredAt(r) {
					kk := okey{r.To, r.Ad.NodeID, r.Ad.Service}
					if r.Ad.Time.After(withdrawnAt[kk]) {
						withdrawnAt[kk] = r.Ad.Time
					}
				}
			}
		}
		var omu sync.Mutex // (the close-in-round action runs on a goroutine of the node)
		voided := false
		closedAt := map[string]time.Time{} // when the harness last closed (owner/service)
		open := map[string]c18Closer{}
		dead := map[string]bool{}
		defer installYields(res.Seed, 0, "none")()
		closesLeft := p.CloseInAdRound
		// a close that takes its time: the goroutine closing a socket is held, on the simulated clock, at the point
		// where PacketConn.Close is about to take the listener lock (no lock is held there), long enough for one of
		// the owner's periodic advertisement rounds to run in between
		var inRoundClose atomic.Int32
		slowCloses := 0
		setYieldAction("lock", func(site string) {
			if !strings.HasPrefix(site, "packetconn.go:PacketConn.Close:") || inRoundClose.Load() > 0 {
				// (not stacked on the close that already happens inside an advertisement round: the two together
				// would stall the round for seconds between collecting and sending)
				return
			}
			omu.Lock()
			slowCloses++
			n := slowCloses
			omu.Unlock()
			if simnet.H(res.Seed, "slow-close", n)%3 != 0 {
				return
			}
			w.Count("fault_slow_close", 1)
			time.Sleep(time.Duration(1+simnet.H(res.Seed, "slow-close-d", n)%uint64(p.ServiceAdS*1000+200)) * time.Millisecond)
		})
		setYieldAction("svcad.send", func(nodeSvc string) {
			key := strings.Replace(nodeSvc, "|", "/", 1)
			omu.Lock()
			c := open[key]
			if c == nil || closesLeft <= 0 || simnet.H(res.Seed, "close-in-round", key, closesLeft)%2 != 0 {
				omu.Unlock()
				return
			}
			closesLeft--
			delete(open, key)
			closedAt[key] = time.Now()
			omu.Unlock()
			time.Sleep(time.Millisecond)
			inRoundClose.Add(1)
			_ = c.Close()
			inRoundClose.Add(-1)
			time.Sleep(time.Millisecond) // (time passes between any two actions of a real node)
			w.Event("close %s (inside an advertisement round)", key)
			w.Count("fault_close_inside_ad_round", 1)
		})
		tags := map[string]map[string]string{}
		types := map[string]byte{}
		evs := append([]c18Event(nil), p.Events...)
		sort.SliceStable(evs, func(i, j int) bool { return evs[i].AtMs < evs[j].AtMs })
		joined := p.LateJoin < 0
		joinAt := 0
		if len(evs) > 0 {
			joinAt = evs[len(evs)/2].AtMs
		}
		checkpoint := func() {
			simnet.Quiesce()
			noteWithdrawals()
			sample()
		}
		for _, ev := range evs {
			if !joined && ev.AtMs >= joinAt {
				w.SleepUntil(time.Duration(joinAt) * time.Millisecond)
				for i, pl := range p.Links {
					if i < len(links) && (pl.A == p.LateJoin || pl.B == p.LateJoin) {
						_ = m.Up(links[i])
					}
				}
				joined = true
				res.Add("probe_late_join", 1)
			}
			// sample between events, so that transient resurrection is seen
			for w.Now() < time.Duration(ev.AtMs)*time.Millisecond {
				step := time.Duration(ev.AtMs)*time.Millisecond - w.Now()
				if step > 150*time.Millisecond {
					step = 150 * time.Millisecond
				}
				time.Sleep(step)
				checkpoint()
				if w.OverBudget() {
					break
				}
			}
			if ev.Node >= p.N {
				continue
			}
			n := m.Nodes[ids[ev.Node]]
			key := ids[ev.Node] + "/" + ev.Svc
			if !n.Up() {
				continue
			}
			switch ev.Kind {
			case "open":
				omu.Lock()
				isOpen := open[key] != nil
				omu.Unlock()
				if isOpen {
					continue
				}
				var tg map[string]string
				if ev.Tag != "" {
					tg = map[string]string{"t": ev.Tag}
				}
				if ev.Strm {
					li, err := c18Listen(n.Net(), ev.Svc, tg)
					if err != nil {
						if err == errMuxCollision {
							// (the half-opened listener stays advertised: this run can no longer be judged)
							res.Add("probe_quic_multiplexer_collision", 1)
							voided = true
						}
						continue
					}
					omu.Lock()
					open[key], types[key] = li, netceptor.ConnTypeStream
					omu.Unlock()
				} else {
					pc, err := n.Net().ListenPacketAndAdvertise(ev.Svc, tg)
					if err != nil {
						continue
					}
					omu.Lock()
					open[key], types[key] = pc, netceptor.ConnTypeDatagram
					omu.Unlock()
				}
				tags[key] = tg
				w.Event("open %s", key)
			case "stop":
				if n.Up() {
					n.Stop()
					res.Add("probe_node_death", 1)
					omu.Lock()
					for kk := range open {
						if strings.HasPrefix(kk, ids[ev.Node]+"/") {
							delete(open, kk)
							dead[kk] = true
						}
					}
					omu.Unlock()
				}
			case "close":
				omu.Lock()
				c := open[key]
				delete(open, key)
				if c != nil {
					closedAt[key] = time.Now()
				}
				omu.Unlock()
				if c != nil {
					_ = c.Close()
					w.Event("close %s", key)
					res.Add("probe_withdrawals", 1)
				}
			}
			if w.OverBudget() {
				break
			}
		}
		if !joined {
			for i, pl := range p.Links {
				if i < len(links) && (pl.A == p.LateJoin || pl.B == p.LateJoin) {
					_ = m.Up(links[i])
				}
			}
		}
		omu.Lock()
		closesLeft = 0
		omu.Unlock()
		// settle: one periodic round reaches everybody (plus path latency)
		end := w.Now() + k.ServiceAd + 5*time.Second + 4*time.Second + time.Duration(p.N*p.ReorderMs)*time.Millisecond
		for w.Now() < end && !w.OverBudget() {
			time.Sleep(200 * time.Millisecond)
			checkpoint()
		}
		if voided {
			res.Violations = nil
		} else if w.OverBudget() {
			res.Violate("c18:advertisement-storm", "the run used more than %d link messages: advertisement flooding does not terminate (%d events)", w.MsgBudget, len(evs))
		} else {
			// (1) every node lists exactly the advertised services currently open on the nodes it can reach
			dist := m.TrueGraph().AllPairs()
			for _, id := range ids {
				if !m.Nodes[id].Up() {
					continue
				}
				// services open on live nodes this observer can reach
				want := map[string]string{}
				for key := range open {
					owner := key[:strings.Index(key, "/")]
					if _, ok := dist[id][owner]; ok {
						want[key] = fmt.Sprintf("type=%d tags=%v", types[key], tags[key])
					} else {
						dead[key] = true // open, but on a node cut off from this observer by the death
					}
				}
				got := map[string]string{}
				for _, ad := range m.Nodes[id].Net().Status().Advertisements {
					tg := ad.Tags
					if len(tg) == 0 {
						tg = nil
					}
					got[ad.NodeID+"/"+ad.Service] = fmt.Sprintf("type=%d tags=%v", ad.ConnType, tg)
				}
				if !reflect.DeepEqual(got, want) {
					sig := "c18:listing-mismatch"
					onlyDead := true
					// a listed service that is closed on a live, reachable owner: was this observer ever handed the
					// withdrawal of that close?  (a withdrawal is flooded once, to whoever is connected at that moment)
					missedAll, stale := true, 0
					for kk := range got {
						if _, ok := want[kk]; !ok {
							sig = "c18:stale-listing"
							owner := kk[:strings.Index(kk, "/")]
							if _, reach := dist[id][owner]; reach && !dead[kk] {
								onlyDead = false
								stale++
								omu.Lock()
								ct, closed := closedAt[kk]
								omu.Unlock()
								handed := !closed
								for _, r := range w.Wire() {
									if r.Ad == nil || !r.Ad.Cancel || r.To != id || r.Ad.NodeID != owner || r.Ad.NodeID+"/"+r.Ad.Service != kk {
										continue
									}
									if len(w.DeliveredAt(r)) > 0 && !r.Ad.Time.Before(ct.Add(-time.Second)) {
										handed = true
									}
								}
								if handed {
									missedAll = false
								}
							}
						}
					}
					for kk := range want {
						if _, ok := got[kk]; !ok {
							onlyDead = false
						}
					}
					if sig == "c18:stale-listing" && onlyDead {
						sig = "c18:dead-node-services-listed"
					} else if sig == "c18:stale-listing" && stale > 0 && missedAll {
						wantAll := true
						for kk := range want {
							if _, ok := got[kk]; !ok {
								wantAll = false
							}
						}
						if wantAll {
							sig = "c18:withdrawal-never-reached-observer"
						}
					}
					res.Violate(sig, "after listeners stopped changing %s lists %v, open advertised services are %v", id, got, want)
				}
			}
			// (3) advertisement traffic is quiet between periodic rounds: count messages in a window shorter than the period
			if k.ServiceAd >= 10*time.Second {
				mark := w.WireLen()
				time.Sleep(k.ServiceAd / 3)
				adMsgs := 0
				for _, r := range w.Wire()[mark:] {
					if r.Type == simnet.MsgAd {
						adMsgs++
					}
				}
				bound := (len(open) + 1) * len(p.Links) * 2 * 2
				if adMsgs > bound {
					res.Violate("c18:traffic-not-quiescent", "%d advertisement messages in a third of a period with %d open services on %d links (bound %d)", adMsgs, len(open), len(p.Links), bound)
				}
			}
		}
		dumpWire(w, os.Getenv("VERIF_DEBUG_MATCH"))
		dumpEvents(w, "")
		res.SimSeconds = w.Now().Seconds()
		res.LogHash, res.LogLines = w.CanonicalLogHash()
		res.Merge(w.Stats())
		kinds := []string{}
		if p.LateJoin >= 0 {
			kinds = append(kinds, "late")
		}
		res.Class = fmt.Sprintf("n=%d links=%d ev=%d open=%d ad=%ds %s", p.N, len(p.Links), len(evs), len(open), p.ServiceAdS, strings.Join(kinds, ""))
		for _, c := range open {
			_ = c.Close()
		}
		for _, n := range m.Nodes {
			n.Stop()
		}
		time.Sleep(3 * time.Second)
	})
}

func TestC18(t *testing.T) {
	quiet()
	simnet.RunCheck(t, simnet.Check{ID: "C18", Gen: genC18, NewPlan: func() any { return &C18Plan{} }, Run: runC18})
}
