//go:build verif

package checks

import (
	"crypto/rand"
	"crypto/rsa"
	"crypto/x509"
	"encoding/base64"
	"encoding/json"
	"encoding/pem"
	"fmt"
	"os"
	"path/filepath"
	"sort"
	"strings"
	"sync"
	"testing"
	"time"

	"github.com/ansible/receptor/pkg/workceptor"
	"github.com/golang-jwt/jwt/v4"
	"verif/sim/simnet"
	"verif/sim/simwork"
)

// C15 — signature-protected work cannot be driven remotely without a valid token.

type c15Cell struct {
	Cmd   string `json:"cmd"`   // submit cancel release force-release results status list
	Conn  string `json:"conn"`  // unix tcp
	WType string `json:"wtype"` // secure echo remote-signed remote-unsigned unknown
	Token string `json:"token"` // see c15Token
	JSON  bool   `json:"json"`
}

type C15Plan struct {
	Cells  []c15Cell `json:"cells"`
	Shrink []string  `json:"_shrink"`
}

var c15Tokens = []string{"absent", "empty", "garbage", "truncated", "valid", "expired", "expiring-then-late", "used-then-expired", "used-then-expired", "fresh-1s", "other-audience", "no-audience", "other-key",
	"alg-none", "hs256-pubkey", "hs384-pubkey", "hs512-pubkey", "hs512-pubpem", "rs256", "no-exp", "tampered-payload"}
var c15Cmds = []string{"submit", "cancel", "release", "force-release", "results", "status", "list"}
var c15Types = []string{"secure", "echo", "remote-signed", "remote-unsigned", "unknown", "secure-variant"}

// spellings that are not the configured name of the protected type: they name no work type at all
var c15Variants = []string{"Secure", "SECURE", "sEcure", "secure ", " secure", "secure\t", "secure\x00", "secure/", "./secure", "ſecure", "secure.", "Echo"}

func genC15(seed uint64, tier string) any {
	r := simnet.NewRng(seed, "c15")
	p := &C15Plan{Shrink: []string{"cells"}}
	n := 8
	if tier == "thorough" {
		n = 24
	}
	for i := 0; i < n; i++ {
		p.Cells = append(p.Cells, c15Cell{Cmd: simnet.Pick(r, c15Cmds[:5]), Conn: simnet.Pick(r, []string{"tcp", "tcp", "unix"}),
			WType: simnet.Pick(r, append(c15Types, "secure", "secure", "remote-signed")), Token: simnet.Pick(r, append(c15Tokens, "valid", "valid", "fresh-1s")), JSON: true})
		if c := &p.Cells[len(p.Cells)-1]; c.WType == "secure-variant" {
			// only a submit names a work type; most interesting without any token (nothing else could stop it)
			c.Cmd, c.Conn = "submit", "tcp"
			c.Token = simnet.Pick(r, []string{"absent", "absent", "empty", "garbage", "valid"})
		}
	}
	return p
}

var (
	c15KeyOnce sync.Once
	c15Key     *rsa.PrivateKey
	c15Other   *rsa.PrivateKey
	c15PubPEM  []byte
	c15PrivPEM []byte
)

func c15Keys() {
	c15KeyOnce.Do(func() {
		c15Key, _ = rsa.GenerateKey(rand.Reader, 2048)
		c15Other, _ = rsa.GenerateKey(rand.Reader, 2048)
		pub, _ := x509.MarshalPKIXPublicKey(&c15Key.PublicKey)
		c15PubPEM = pem.EncodeToMemory(&pem.Block{Type: "PUBLIC KEY", Bytes: pub})
		c15PrivPEM = pem.EncodeToMemory(&pem.Block{Type: "RSA PRIVATE KEY", Bytes: x509.MarshalPKCS1PrivateKey(c15Key)})
	})
}

// c15Token builds the token; valid reports whether the property requires it to be honoured,
// and late asks the caller to let simulated time pass before presenting it.
func c15Token(kind, node string) (tok string, valid bool, lateBy time.Duration, undecided bool) {
	now := time.Now()
	claims := func(exp time.Time, aud ...string) *jwt.RegisteredClaims {
		c := &jwt.RegisteredClaims{Audience: aud}
		if !exp.IsZero() {
			c.ExpiresAt = jwt.NewNumericDate(exp)
		}
		return c
	}
	sign := func(m jwt.SigningMethod, c jwt.Claims, key any) string {
		s, err := jwt.NewWithClaims(m, c).SignedString(key)
		if err != nil {
			return "sign-error-" + err.Error()
		}
		return s
	}
	good := sign(jwt.SigningMethodRS512, claims(now.Add(time.Hour), node), c15Key)
	switch kind {
	case "absent":
		return "", false, 0, false
	case "empty":
		return "", false, 0, false
	case "garbage":
		return "not.a.token", false, 0, false
	case "truncated":
		return good[:len(good)-20], false, 0, false
	case "valid":
		return good, true, 0, false
	case "expired":
		return sign(jwt.SigningMethodRS512, claims(now.Add(-time.Second), node), c15Key), false, 0, false
	case "expiring-then-late":
		return sign(jwt.SigningMethodRS512, claims(now.Add(time.Second), node), c15Key), false, 3 * time.Second, false
	case "used-then-expired":
		// honoured once while valid (the caller does that), presented again after it has expired
		return sign(jwt.SigningMethodRS512, claims(now.Add(2*time.Second), node), c15Key), false, 4 * time.Second, false
	case "fresh-1s":
		return sign(jwt.SigningMethodRS512, claims(now.Add(2*time.Second), node), c15Key), true, 0, false
	case "other-audience":
		return sign(jwt.SigningMethodRS512, claims(now.Add(time.Hour), "someone-else"), c15Key), false, 0, false
	case "no-audience":
		return sign(jwt.SigningMethodRS512, claims(now.Add(time.Hour)), c15Key), false, 0, false
	case "other-key":
		return sign(jwt.SigningMethodRS512, claims(now.Add(time.Hour), node), c15Other), false, 0, false
	case "alg-none":
		return sign(jwt.SigningMethodNone, claims(now.Add(time.Hour), node), jwt.UnsafeAllowNoneSignatureType), false, 0, false
	case "hs256-pubkey", "hs384-pubkey", "hs512-pubkey", "hs512-pubpem":
		m := map[string]jwt.SigningMethod{"hs256-pubkey": jwt.SigningMethodHS256, "hs384-pubkey": jwt.SigningMethodHS384, "hs512-pubkey": jwt.SigningMethodHS512, "hs512-pubpem": jwt.SigningMethodHS512}[kind]
		key, _ := x509.MarshalPKIXPublicKey(&c15Key.PublicKey)
		if kind == "hs512-pubpem" {
			key = c15PubPEM
		}
		return sign(m, claims(now.Add(time.Hour), node), key), false, 0, false
	case "rs256":
		// signed by the configured key with another RSA variant: the property does not decide this one
		return sign(jwt.SigningMethodRS256, claims(now.Add(time.Hour), node), c15Key), true, 0, true
	case "no-exp":
		// no expiry claim at all: "unexpired" is vacuous; not decided by the property text
		return sign(jwt.SigningMethodRS512, claims(time.Time{}, node), c15Key), true, 0, true
	case "tampered-payload":
		parts := strings.Split(good, ".")
		pl, _ := base64.RawURLEncoding.DecodeString(parts[1])
		pl = []byte(strings.Replace(string(pl), node, node, 1))
		pl = append(pl[:len(pl)-1], []byte(`,"x":1}`)...)
		parts[1] = base64.RawURLEncoding.EncodeToString(pl)
		return strings.Join(parts, "."), false, 0, false
	}
	return "", false, 0, false
}

func dirSnapshot(root string) map[string]string {
	out := map[string]string{}
	_ = filepath.Walk(root, func(p string, fi os.FileInfo, err error) error {
		if err != nil || fi.IsDir() {
			return nil
		}
		if strings.HasSuffix(p, ".lock") {
			return nil
		}
		b, _ := os.ReadFile(p)
		rel, _ := filepath.Rel(root, p)
		// the detail text and sizes of a running unit move on their own; identity and existence are what matters
		if strings.HasSuffix(p, "/status") {
			var v map[string]any
			if json.Unmarshal(b, &v) == nil {
				ed, _ := json.Marshal(v["ExtraData"])
				out[rel] = fmt.Sprintf("type=%v cancelled=%v", v["WorkType"], strings.Contains(string(ed), `"LocalCancelled":true`))
				return nil
			}
		}
		out[rel] = fmt.Sprintf("%d bytes", len(b))
		return nil
	})
	return out
}

func runC15(t *testing.T, planAny any, res *simnet.Result) {
	p := planAny.(*C15Plan)
	c15Keys()
	runDir := simwork.NewRunDir()
	defer simwork.RemoveRunDir(runDir)
	pubFile, privFile := filepath.Join(runDir, "pub.pem"), filepath.Join(runDir, "priv.pem")
	_ = os.WriteFile(pubFile, c15PubPEM, 0o600)
	_ = os.WriteFile(privFile, c15PrivPEM, 0o600)
	simnet.Bubble(t, func() {
		w := simnet.NewWorld(res.Seed)
		ctl := simwork.NewStepCtl()
		defer ctl.Close()
		m := simnet.NewMesh(w)
		k := simnet.DefaultKnobs()
		k.ServiceAd = 0
		nn := m.AddNode("w0", k)
		node := simwork.NewWorkNode(w, ctl, nn, runDir, []simwork.WorkType{{Name: "echo", Cmd: "@stub"}, {Name: "secure", Cmd: "@stub", Verify: true}})
		node.Configure = func(wc *workceptor.Workceptor) {
			wc.VerifyingKey = pubFile
			wc.SigningKey = privFile
		}
		if err := node.Start(); err != nil {
			res.Violate("harness", "start: %v", err)
			return
		}
		_ = simwork.NewRunners(w, ctl, node, res.Seed, func(n int) simwork.RunnerPlan {
			return simwork.RunnerPlan{Chunks: []int{100, 100}, PauseMs: []int{200, 100000}, EndMs: 100} // long-running: there is something to cancel
		})
		root := node.UnitDirReal("")
		// a fresh target unit of the right type for every cell that needs one (created over the local socket)
		mkUnit := func(wt string) string {
			c := node.Session("unix")
			defer c.Close()
			_, _ = c.Hello()
			var line string
			switch wt {
			case "secure", "echo":
				line = "work submit w0 " + wt
			case "remote-signed":
				line = `{"command":"work","subcommand":"submit","node":"faraway","worktype":"echo","signwork":"true"}`
			case "remote-unsigned":
				line = `{"command":"work","subcommand":"submit","node":"faraway","worktype":"echo"}`
			default:
				return ""
			}
			id, _, _, _ := c.Submit(line, []byte("payload"), 20*time.Second)
			return id
		}
		classes := map[string]bool{}
		for ci, cell := range p.Cells {
			tok, valid, late, undecided := c15Token(cell.Token, "w0")
			var unit string
			if cell.Cmd != "submit" && cell.Cmd != "list" {
				unit = mkUnit(cell.WType)
				if unit == "" {
					if cell.WType != "unknown" && cell.WType != "secure-variant" {
						res.Add("probe_setup_failed", 1)
					}
					unit = "nosuchunit"
				}
				time.Sleep(400 * time.Millisecond)
			}
			if cell.Token == "used-then-expired" {
				// first use, while the token is valid: a submit to the protected type over TCP
				pc := node.Session("tcp")
				_, _ = pc.Hello()
				b, _ := json.Marshal(map[string]any{"command": "work", "subcommand": "submit", "node": "w0", "worktype": "secure", "signature": tok})
				if id, _, _, _ := pc.Submit(string(b), []byte("first use"), 20*time.Second); id != "" {
					res.Add("probe_token_used_while_valid", 1)
				}
				pc.Close()
			}
			if late > 0 {
				time.Sleep(late)
			}
			simnet.Quiesce()
			before := dirSnapshot(root)
			req := map[string]any{"command": "work", "subcommand": cell.Cmd}
			switch cell.Cmd {
			case "submit":
				switch cell.WType {
				case "secure", "echo":
					req["node"], req["worktype"] = "w0", cell.WType
				case "remote-signed":
					req["node"], req["worktype"], req["signwork"] = "faraway", "echo", "true"
				case "remote-unsigned":
					req["node"], req["worktype"] = "faraway", "echo"
				case "secure-variant":
					req["node"], req["worktype"] = "w0", c15Variants[simnet.H(res.Seed, "variant", ci)%uint64(len(c15Variants))]
				default:
					req["node"], req["worktype"] = "w0", "nosuchtype"
				}
			case "results":
				req["unitid"], req["startpos"] = unit, 0
			case "list":
			default:
				req["unitid"] = unit
			}
			if cell.Token != "absent" {
				req["signature"] = tok
			}
			line, _ := json.Marshal(req)
			c := node.Session(cell.Conn)
			_, _ = c.Hello()
			var reply string
			var streamed []byte
			if cell.Cmd == "submit" {
				id, ack, final, _ := c.Submit(string(line), []byte("data"), 20*time.Second)
				reply = ack
				if id != "" {
					reply = "CREATED " + id + " " + final
				}
			} else {
				reply, _ = c.Cmd(string(line), 20*time.Second)
				if strings.HasPrefix(reply, "Streaming") {
					_ = c.C.SetReadDeadline(time.Now().Add(2 * time.Second))
					buf := make([]byte, 4096)
					n, _ := c.R.Read(buf)
					streamed = buf[:n]
				}
			}
			c.Close()
			time.Sleep(300 * time.Millisecond)
			simnet.Quiesce()
			after := dirSnapshot(root)
			refused := strings.HasPrefix(reply, "ERROR")
			// what does the property require?
			protected := cell.WType == "secure" || cell.WType == "remote-signed"
			if cell.Cmd == "submit" && cell.WType == "remote-signed" {
				// submitting remote work with signwork asks this node to sign for the remote one; the verifying side of
				// that submission is the remote node, so locally no token is expected
				protected = false
			}
			key := fmt.Sprintf("%s/%s/%s/%s", cell.Cmd, cell.Conn, cell.WType, cell.Token)
			classes[key] = true
			res.Add("cells_checked", 1)
			changed := diffSnap(before, after)
			switch {
			case cell.WType == "unknown" || cell.WType == "secure-variant":
				if cell.Cmd == "submit" && !refused {
					res.Violate("c15:unknown-type-accepted", "cell %d %s (work type %q): reply %q", ci, key, req["worktype"], trunc(reply))
				} else if cell.Cmd == "submit" && len(changed) > 0 {
					res.Violate("c15:refused-but-effect|"+cell.Cmd, "cell %d %s (work type %q): refused (%q) but %v", ci, key, req["worktype"], trunc(reply), changed)
				} else if !refused {
					res.Violate("c15:unknown-type-accepted", "cell %d %s: reply %q", ci, key, trunc(reply))
				}
			case protected && cell.Conn != "unix" && !valid && !undecided:
				// must be refused, and nothing may have happened
				if !refused {
					res.Violate("c15:accepted-without-valid-token|"+cell.Cmd, "cell %d %s: command was not refused: %q", ci, key, trunc(reply))
				} else if len(changed) > 0 || len(streamed) > 0 {
					res.Violate("c15:refused-but-effect|"+cell.Cmd, "cell %d %s: refused (%q) but the unit set changed: %v streamed=%d", ci, key, trunc(reply), changed, len(streamed))
				}
				res.Add("probe_must_refuse", 1)
			case protected && cell.Conn != "unix" && valid && !undecided:
				if refused {
					res.Violate("c15:valid-token-refused|"+cell.Cmd, "cell %d %s: a valid token was refused: %q", ci, key, trunc(reply))
				}
				res.Add("probe_must_accept", 1)
			case !protected && cell.Token != "absent" && cell.Token != "empty":
				// a token sent to a work type that does not expect one is refused as well
				if !refused {
					res.Violate("c15:unexpected-token-accepted|"+cell.Cmd, "cell %d %s: work type expects no token but the command was accepted: %q", ci, key, trunc(reply))
				} else if len(changed) > 0 || len(streamed) > 0 {
					res.Violate("c15:refused-but-effect|"+cell.Cmd, "cell %d %s: refused but %v", ci, key, changed)
				}
				res.Add("probe_unexpected_token", 1)
			case !protected:
				if refused && unit != "nosuchunit" {
					res.Violate("c15:unprotected-refused|"+cell.Cmd, "cell %d %s: work type is not protected, no token sent, yet refused: %q", ci, key, trunc(reply))
				}
			default:
				res.Add("probe_undecided_or_local", 1)
			}
			if len(res.Violations) > 4 {
				break
			}
		}
		res.SimSeconds = w.Now().Seconds()
		res.LogHash, res.LogLines = w.CanonicalLogHash()
		res.Merge(w.Stats())
		ks := simnet.SortedKeys(classes)
		res.Class = strings.Join(ks, ";")
		node.Crash()
		time.Sleep(3 * time.Second)
	})
}

func diffSnap(a, b map[string]string) []string {
	var out []string
	for k, v := range a {
		if bv, ok := b[k]; !ok {
			out = append(out, "removed "+k)
		} else if bv != v && !strings.HasSuffix(k, "stdout") {
			out = append(out, fmt.Sprintf("changed %s: %s -> %s", k, v, bv))
		}
	}
	for k := range b {
		if _, ok := a[k]; !ok {
			out = append(out, "created "+k)
		}
	}
	sort.Strings(out)
	return out
}

func TestC15(t *testing.T) {
	quiet()
	defer simwork.CleanupScratch()
	simnet.RunCheck(t, simnet.Check{ID: "C15", Gen: genC15, NewPlan: func() any { return &C15Plan{} }, Run: runC15})
}
