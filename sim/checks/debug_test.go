package checks

import (
	"fmt"
	"os"
	"strings"

	"verif/sim/simnet"
)

// dumpWire prints wire records matching a substring when VERIF_DEBUG is set.
func dumpWire(w *simnet.World, match string) {
	if os.Getenv("VERIF_DEBUG") == "" {
		return
	}
	for _, r := range w.Wire() {
		line := fmt.Sprintf("%v seq=%d %s#%d %s>%s type=%d fate=%s deliv=%v", r.At, r.Seq, r.Link, r.Gen, r.From, r.To, r.Type, r.Fate, w.DeliveredAt(r))
		if r.Route != nil {
			line += fmt.Sprintf(" route id=%s origin=%s ep=%d seq=%d fwd=%s conns=%v dup=%d", r.Route.UpdateID, r.Route.NodeID, r.Route.UpdateEpoch>>24, r.Route.UpdateSequence, r.Route.ForwardingNode, r.Route.Connections, r.Route.SuspectedDuplicate)
		}
		if r.Ad != nil {
			line += fmt.Sprintf(" ad %s/%s cancel=%v time=%v", r.Ad.NodeID, r.Ad.Service, r.Ad.Cancel, r.Ad.Time.UnixNano())
		}
		if match == "" || strings.Contains(line, match) {
			fmt.Fprintln(os.Stderr, line)
		}
	}
}

func dumpEvents(w *simnet.World, match string) {
	if os.Getenv("VERIF_DEBUG") == "" {
		return
	}
	for _, l := range w.CanonicalLog() {
		if strings.Contains(l, " wire ") {
			continue
		}
		if match == "" || strings.Contains(l, match) {
			fmt.Fprintln(os.Stderr, l)
		}
	}
}
