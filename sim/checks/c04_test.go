//go:build verif

package checks

import (
	"bytes"
	"encoding/json"
	"fmt"
	"io"
	"os"
	"path/filepath"
	"sort"
	"strings"
	"testing"
	"time"

	"verif/sim/simnet"
	"verif/sim/simwork"
)

// C04 — acknowledged work units survive crash/restart with identity and outcome.

type c04Op struct {
	AtMs int    `json:"at_ms"`
	Kind string `json:"kind"` // submit status results list clone
	Unit int    `json:"unit"`
}

type c04Crash struct {
	Step           int `json:"step"`  // crash the daemon at its n-th file step of this incarnation (0: use AtMs)
	AtMs           int `json:"at_ms"` // crash at a quiescent instant
	RestartAfterMs int `json:"restart_after_ms"`
}

type C04Plan struct {
	Runners   []simwork.RunnerPlan `json:"runners"`
	Ops       []c04Op              `json:"ops"`
	Crashes   []c04Crash           `json:"crashes"`
	Remote    *RemotePlan          `json:"remote,omitempty"` // the unit runs on another node and the controller is the one that crashes (remote_test.go)
	Enumerate bool                 `json:"enumerate"`        // replace Crashes[0].Step by every step index of the fault-free trace
	MaxEnum   int                  `json:"max_enum"`
	Shrink    []string             `json:"_shrink"`
}

func genC04(seed uint64, tier string) any {
	r := simnet.NewRng(seed, "c04")
	p := &C04Plan{Shrink: []string{"ops"}}
	if r.Bool(0.3) {
		p.Remote = genRemote(r, "c04", tier)
		p.Shrink = []string{"remote.faults"}
		return p
	}
	for i := 0; i < 6; i++ {
		rp := genRunnerPlan(r, false)
		p.Runners = append(p.Runners, rp)
	}
	n := r.Range(2, 7)
	at := 0
	for i := 0; i < n; i++ {
		at += simnet.Pick(r, []int{5, 100, 400, 1000, 3000})
		op := c04Op{AtMs: at, Unit: r.Intn(4)}
		switch x := r.Intn(100); {
		case x < 50 || i == 0:
			op.Kind = "submit"
		case x < 70:
			op.Kind = "status"
		case x < 85:
			op.Kind = "results"
		case x < 93:
			op.Kind = "list"
		default:
			op.Kind = "clone"
		}
		p.Ops = append(p.Ops, op)
	}
	nc := r.Range(1, 3)
	for c := 0; c < nc; c++ {
		cr := c04Crash{RestartAfterMs: simnet.Pick(r, []int{0, 5, 20, 100, 1000, 5000})}
		if r.Bool(0.7) {
			cr.Step = r.Range(1, 60)
		} else {
			cr.AtMs = r.Range(1, at+3000)
		}
		p.Crashes = append(p.Crashes, cr)
	}
	p.Enumerate = true
	p.MaxEnum = 8
	if tier == "thorough" {
		p.MaxEnum = 0 // all
	}
	return p
}

type c04Unit struct {
	id        string
	acked     bool
	submitted time.Duration
}

// c04Exec runs the scenario once.  crash0 overrides the step index of the first crash (0: as planned).
// It returns the number of daemon steps taken by the first incarnation (for enumeration).
func c04Exec(t *testing.T, p *C04Plan, seed uint64, crash0 int, noCrash bool, res *simnet.Result) (steps int) {
	runDir := simwork.NewRunDir()
	defer simwork.RemoveRunDir(runDir)
	simnet.Bubble(t, func() {
		w := simnet.NewWorld(seed)
		ctl := simwork.NewStepCtl()
		defer ctl.Close()
		ctl.Record = true
		mon := simwork.NewMonitor(ctl)
		m := simnet.NewMesh(w)
		k := simnet.DefaultKnobs()
		k.ServiceAd = 0
		nn := m.AddNode("w0", k)
		node := simwork.NewWorkNode(w, ctl, nn, runDir, []simwork.WorkType{{Name: "echo", Cmd: "@stub"}})
		if err := node.Start(); err != nil {
			res.Violate("harness", "start: %v", err)
			return
		}
		runners := simwork.NewRunners(w, ctl, node, seed, func(n int) simwork.RunnerPlan {
			if len(p.Runners) == 0 {
				return simwork.RunnerPlan{}
			}
			return p.Runners[n%len(p.Runners)]
		})
		var units []*c04Unit
		var restartTimes []time.Time
		crashes := append([]c04Crash(nil), p.Crashes...)
		if noCrash {
			crashes = nil
		} else if crash0 > 0 && len(crashes) > 0 {
			crashes[0].Step, crashes[0].AtMs = crash0, 0
		}
		crashed := make(chan struct{}, 1)
		arm := func(ci int) {
			if ci >= len(crashes) {
				return
			}
			cr := crashes[ci]
			if cr.Step > 0 {
				ctl.CrashAt(fmt.Sprintf("crash%d", ci), node.Alias()+"/", "", cr.Step, func() {
					// the rest of the dying process: contexts, sessions, links
					go func() {
						node.Crash()
						crashed <- struct{}{}
					}()
				})
			}
		}
		arm(0)
		ci := 0
		incStart := w.Now()
		ops := append([]c04Op(nil), p.Ops...)
		sort.SliceStable(ops, func(i, j int) bool { return ops[i].AtMs < ops[j].AtMs })
		doRestart := func() bool {
			cr := crashes[ci]
			time.Sleep(time.Duration(cr.RestartAfterMs)*time.Millisecond + 50*time.Microsecond)
			if steps == 0 {
				steps = c04DaemonSteps(ctl, node)
			}
			if err := node.Start(); err != nil {
				res.Violate("c04:restart-failed", "restart after crash %d: %v", ci, err)
				return false
			}
			res.Add("restarts", 1)
			restartTimes = append(restartTimes, time.Now())
			ci++
			incStart = w.Now()
			arm(ci)
			return true
		}
		checkCrash := func() bool { // returns false when the run cannot go on
			select {
			case <-crashed:
				return doRestart()
			default:
			}
			if ci < len(crashes) && crashes[ci].Step == 0 && node.Up() && w.Now()-incStart >= time.Duration(crashes[ci].AtMs)*time.Millisecond {
				simnet.Quiesce()
				node.Crash()
				res.Add("fault_crash_quiescent", 1)
				return doRestart()
			}
			return true
		}
		for oi, op := range ops {
			target := time.Duration(op.AtMs)*time.Millisecond + time.Duration(oi)*time.Microsecond
			for w.Now() < target {
				step := target - w.Now()
				if step > 50*time.Millisecond {
					step = 50 * time.Millisecond
				}
				time.Sleep(step)
				if !checkCrash() {
					return
				}
			}
			if !node.Up() {
				continue
			}
			switch op.Kind {
			case "submit":
				u := &c04Unit{submitted: w.Now()}
				c := node.Session("unix")
				_, _ = c.Hello()
				id, _, _, _ := c.Submit("work submit w0 echo", []byte("stdin-data"), 10*time.Second)
				c.Close()
				if id != "" {
					u.id, u.acked = id, true
					units = append(units, u)
				}
			case "status", "results", "list":
				if len(units) == 0 {
					continue
				}
				u := units[op.Unit%len(units)]
				c := node.Session("unix")
				_, _ = c.Hello()
				switch op.Kind {
				case "status":
					_, _ = c.Cmd("work status "+u.id, 10*time.Second)
				case "list":
					_, _ = c.Cmd("work list", 10*time.Second)
				default:
					if hdr, err := c.Cmd("work results "+u.id+" 0", 10*time.Second); err == nil && strings.HasPrefix(hdr, "Streaming") {
						go func() { _, _ = c.ReadAll(30 * time.Second) }()
						time.Sleep(10 * time.Millisecond)
						continue
					}
				}
				c.Close()
			case "clone":
				// a unit directory the running daemon has never seen (restored backup, second instance on the same
				// data directory): a valid record under a new name
				if len(units) == 0 {
					continue
				}
				src := node.UnitDirReal(units[op.Unit%len(units)].id)
				dstID := fmt.Sprintf("clone%04d", oi)
				if copyDir(src, node.UnitDirReal(dstID)) == nil {
					units = append(units, &c04Unit{id: dstID, acked: false})
					res.Add("probe_disk_only_unit", 1)
					c := node.Session("unix")
					_, _ = c.Hello()
					if _, err := c.Cmd("work status "+dstID, 20*time.Second); err != nil && node.Up() {
						res.Violate("c04:query-blocks|disk-only", "work status for a unit that exists only on disk got no answer in 20 s (%v)", err)
					}
					c.Close()
				}
			}
			if !checkCrash() {
				return
			}
		}
		// let planned crashes that have not happened yet happen, then let everything finish
		end := w.Now() + 12*time.Second
		for w.Now() < end {
			time.Sleep(50 * time.Millisecond)
			if !checkCrash() {
				return
			}
		}
		if !node.Up() {
			select {
			case <-crashed:
				if !doRestart() {
					return
				}
			case <-time.After(time.Second):
				res.Violate("harness", "node down without crash notification")
				return
			}
		}
		if steps == 0 {
			steps = c04DaemonSteps(ctl, node)
		}
		// runners outlive the daemon; give them time to finish and the new daemon time to notice
		longest := time.Duration(0)
		for _, st := range runners.All() {
			var d time.Duration
			for _, pms := range st.Plan.PauseMs {
				d += time.Duration(pms) * time.Millisecond
			}
			d += time.Duration(st.Plan.EndMs) * time.Millisecond
			if d > longest {
				longest = d
			}
		}
		time.Sleep(longest + 6*time.Second)
		simnet.Quiesce()
		ctl.DisarmAll() // (the observations below take file steps of their own)
		c04Oracle(w, node, runners, units, mon, restartTimes, res)
		for _, tr := range mon.Transitions() {
			if why := simwork.CheckForward(tr); why != "" {
				res.Add("probe_backward_write_seen", 1) // C13's concern; reported there
				_ = why
			}
		}
		res.SimSeconds += w.Now().Seconds()
		res.LogHash, res.LogLines = w.CanonicalLogHash()
		res.Merge(w.Stats())
		res.Merge(ctl.Stats())
		node.Crash()
		time.Sleep(2 * time.Second)
	})
	return steps
}

func c04DaemonSteps(ctl *simwork.StepCtl, node *simwork.WorkNode) int {
	n := 0
	prefix := node.Real + "-inc-1/"
	for _, s := range ctl.Trace() {
		if strings.HasPrefix(s.Path, prefix) {
			n++
		}
	}
	return n
}

func c04Oracle(w *simnet.World, node *simwork.WorkNode, runners *simwork.Runners, units []*c04Unit, mon *simwork.Monitor, restarts []time.Time, res *simnet.Result) {
	c := node.Session("unix")
	defer c.Close()
	if _, err := c.Hello(); err != nil {
		res.Violate("c04:query-blocks|hello", "control service of the restarted node does not greet: %v", err)
		return
	}
	listReply, err := c.Cmd("work list", 20*time.Second)
	if err != nil {
		res.Violate("c04:query-blocks|list", "work list after restart: no answer in 20 s (%v)", err)
		return
	}
	var list map[string]map[string]any
	if strings.HasPrefix(listReply, "ERROR") || json.Unmarshal([]byte(listReply), &list) != nil {
		res.Violate("c04:list-broken", "work list after restart answers %q", listReply)
		return
	}
	for _, u := range units {
		if !u.acked {
			continue
		}
		res.Add("acked_units_checked", 1)
		st, ok := list[u.id]
		if !ok {
			res.Violate("c04:unit-lost", "unit %s was acknowledged to its submitter but is not listed after restart (record on disk: %q)", u.id, readRecord(node, u.id))
			continue
		}
		if wt, _ := st["WorkType"].(string); wt != "echo" {
			res.Violate("c04:identity-lost", "unit %s is listed with work type %q after restart: %v (record on disk: %q)", u.id, wt, st, readRecord(node, u.id))
			continue
		}
		state := int(st["State"].(float64))
		size := int64(st["StdoutSize"].(float64))
		rs := runners.State(u.id)
		switch {
		case rs == nil:
			// the runner was never launched: must be reported failed, not pending or running
			if state != 3 {
				res.Violate("c04:never-started-not-failed", "unit %s never got a runner but is reported in state %d (%v) after restart", u.id, state, st["Detail"])
			}
			res.Add("probe_never_started", 1)
		case rs.Done:
			wantState := 2
			if rs.Failed {
				wantState = 3
			}
			wantSize := int64(len(rs.Out))
			if rs.Plan.NoStdout {
				wantSize = 0
			}
			if state != wantState || size != wantSize {
				// is the outcome gone from the record itself, or does the daemon just not report what the record says?
				disk := simwork.ParseRecord([]byte(readRecordFull(node, u.id)))
				if disk.Valid && disk.State == wantState && disk.StdoutSize == wantSize {
					sig := "c04:outcome-not-followed"
					if c04MarkedPendingThenLeftAlone(mon, u.id, restarts) {
						// the known 'Pending at restart' problem in its other guise: the mark was taken for final
						sig = "c04:outcome-not-followed|pending-at-restart-mark"
					}
					res.Violate(sig, "unit %s finished with state %d size %d and its record says so, but the restarted daemon reports state %d (%v) size %d", u.id, wantState, wantSize, state, st["Detail"], size)
				} else {
					res.Violate("c04:outcome-lost", "unit %s finished with state %d size %d; after restart the record says state %d (%s) size %d and the daemon reports state %d (%v) size %d",
						u.id, wantState, wantSize, disk.State, disk.Detail, disk.StdoutSize, state, st["Detail"], size)
				}
				continue
			}
			// complete output can still be fetched
			rc := node.Session("unix")
			_, _ = rc.Hello()
			hdr, err := rc.Cmd("work results "+u.id+" 0", 20*time.Second)
			if err != nil || !strings.HasPrefix(hdr, "Streaming") {
				res.Violate("c04:results-unavailable", "unit %s: results after restart: %q %v", u.id, hdr, err)
				rc.Close()
				continue
			}
			data, err := rc.ReadAll(60 * time.Second)
			rc.Close()
			want := rs.Out
			if rs.Plan.NoStdout {
				want = nil
			}
			if err != nil || !bytes.Equal(data, want) {
				res.Violate("c04:results-incomplete", "unit %s: fetched %d of %d output bytes after restart (err %v)", u.id, len(data), len(want), err)
			}
			res.Add("probe_finished_units_refetched", 1)
		}
		// status query answers too
		if reply, err := c.Cmd("work status "+u.id, 20*time.Second); err != nil || strings.HasPrefix(reply, "ERROR") {
			res.Violate("c04:query-blocks|status", "work status %s after restart: %q %v", u.id, reply, err)
		}
	}
}

// c04MarkedPendingThenLeftAlone reports whether the unit was marked 'Failed: Pending at restart' while its runner was
// alive and then either the runner wrote nothing for a second (the daemon's monitor gives up on a finished-looking
// unit at its first one-second check) or another restart took the mark for the final state.
func c04MarkedPendingThenLeftAlone(mon *simwork.Monitor, unit string, restarts []time.Time) bool {
	trs := mon.Transitions()
	for i, tr := range trs {
		if tr.Unit != unit || tr.New.Detail != "Pending at restart" {
			continue
		}
		next := time.Time{}
		for _, t2 := range trs[i+1:] {
			if t2.Unit == unit && strings.Contains(t2.By, "-runner-") {
				next = t2.At
				break
			}
		}
		if next.IsZero() || next.Sub(tr.At) > 900*time.Millisecond {
			return true
		}
		for _, rt := range restarts {
			if rt.After(tr.At) && !rt.After(next) {
				return true
			}
		}
		// a later restart that still found the mark on disk
		for _, rt := range restarts {
			if rt.After(tr.At) {
				for _, t2 := range trs[i+1:] {
					if t2.Unit == unit && t2.At.Before(rt) && t2.New.State != 3 {
						return false
					}
				}
				return true
			}
		}
	}
	return false
}

func readRecordFull(node *simwork.WorkNode, unit string) string {
	b, _ := os.ReadFile(filepath.Join(node.UnitDirReal(unit), "status"))
	return string(b)
}

func readRecord(node *simwork.WorkNode, unit string) string {
	b, _ := os.ReadFile(filepath.Join(node.UnitDirReal(unit), "status"))
	if len(b) > 300 {
		b = b[:300]
	}
	return string(b)
}

func copyDir(src, dst string) error {
	if err := os.MkdirAll(dst, 0o700); err != nil {
		return err
	}
	ents, err := os.ReadDir(src)
	if err != nil {
		return err
	}
	for _, e := range ents {
		if e.IsDir() || strings.HasSuffix(e.Name(), ".lock") {
			continue
		}
		in, err := os.Open(filepath.Join(src, e.Name()))
		if err != nil {
			return err
		}
		out, err := os.Create(filepath.Join(dst, e.Name()))
		if err != nil {
			in.Close()
			return err
		}
		_, _ = io.Copy(out, in)
		in.Close()
		out.Close()
	}
	return nil
}

func runC04(t *testing.T, planAny any, res *simnet.Result) {
	p := planAny.(*C04Plan)
	if p.Remote != nil {
		runRemote(t, p.Remote, "c04", res)
		return
	}
	if !p.Enumerate {
		c04Exec(t, p, res.Seed, 0, false, res)
		res.Class = fmt.Sprintf("ops=%d crashes=%d", len(p.Ops), len(p.Crashes))
		return
	}
	// fault-free first: the step trace of the scenario, and a sanity check of the oracle itself
	free := &simnet.Result{Stats: map[string]int64{}}
	n := c04Exec(t, p, res.Seed, 0, true, free)
	for _, v := range free.Violations {
		res.Violate(v.Sig+"|fault-free", "%s", v.Detail)
	}
	if len(res.Violations) > 0 || n == 0 {
		res.Class = "fault-free"
		return
	}
	idx := make([]int, 0, n)
	for i := 1; i <= n; i++ {
		idx = append(idx, i)
	}
	if p.MaxEnum > 0 && len(idx) > p.MaxEnum {
		r := simnet.NewRng(res.Seed, "c04-enum")
		simnet.Shuffle(r, idx)
		idx = idx[:p.MaxEnum]
		sort.Ints(idx)
	}
	for _, i := range idx {
		before := len(res.Violations)
		c04Exec(t, p, res.Seed, i, false, res)
		res.Add("crash_points_executed", 1)
		if len(res.Violations) > before {
			// make the replay file point at exactly this crash point
			for j := before; j < len(res.Violations); j++ {
				res.Violations[j].Detail = fmt.Sprintf("[crash at daemon step %d of %d] %s", i, n, res.Violations[j].Detail)
			}
			p.Enumerate = false
			if len(p.Crashes) > 0 {
				p.Crashes[0].Step, p.Crashes[0].AtMs = i, 0
			}
			break
		}
	}
	res.Add("daemon_steps_in_trace", int64(n))
	res.Class = fmt.Sprintf("ops=%d steps=%d crashes=%d", len(p.Ops), n, len(p.Crashes))
}

func TestC04(t *testing.T) {
	quiet()
	defer simwork.CleanupScratch()
	simnet.RunCheck(t, simnet.Check{ID: "C04", Gen: genC04, NewPlan: func() any { return &C04Plan{} }, Run: runC04})
}
