//go:build verif

package checks

import (
	"encoding/json"
	"fmt"
	"os"
	"path"
	"sort"
	"strings"
	"sync"
	"testing"
	"time"

	"verif/sim/simnet"
	"verif/sim/simwork"
)

// C13 — work units only move forward; release removes them; unit IDs are unique.

type c13Op struct {
	AtMs   int    `json:"at_ms"`
	Client int    `json:"client"`
	Kind   string `json:"kind"` // submit status list cancel release force-release results burst
	Unit   int    `json:"unit"` // index into the units submitted so far (mod), -1: unknown id
	N      int    `json:"n,omitempty"`
	// Alias: the request names the unit by another spelling of its directory ("<id>/", "<id>/.", "./<id>", "<id>//").
	// Whatever the node answers, it must not end up knowing two units for one directory, and the real unit's history
	// stays subject to every other oracle.
	Alias string `json:"alias,omitempty"`
}

type C13Plan struct {
	Real    *RealPlan            `json:"real,omitempty"` // run one unit with the real runner binary instead (realrunner_test.go)
	View    *C14Plan             `json:"view,omitempty"` // a scheduled history of updates, loads and reports on one unit (c14_test.go): what the daemon reports never goes back
	Runners []simwork.RunnerPlan `json:"runners"`
	Ops     []c13Op              `json:"ops"`
	Shrink  []string             `json:"_shrink"`
}

func genC13(seed uint64, tier string) any {
	r := simnet.NewRng(seed, "c13")
	p := &C13Plan{Shrink: []string{"ops"}}
	if r.Bool(0.05) {
		p.Real = genReal(r)
		return p
	}
	if r.Bool(0.15) {
		v := genC14(seed^0x5eed, tier).(*C14Plan)
		v.Real, v.Fresh = nil, false
		if len(v.Daemon) == 0 {
			v.Daemon = [][]string{{"load", "peek", "inc", "peek"}, {"basic", "load", "peek"}}
		}
		p.View = v
		p.Shrink = []string{"view.procs", "view.daemon"}
		return p
	}
	for i := 0; i < 12; i++ {
		p.Runners = append(p.Runners, genRunnerPlan(r, false))
	}
	n := r.Range(6, 20)
	if tier == "thorough" {
		n = r.Range(10, 50)
	}
	at := 0
	for i := 0; i < n; i++ {
		if !r.Bool(0.3) {
			at += simnet.Pick(r, []int{1, 20, 200, 260, 700, 2000})
		}
		op := c13Op{AtMs: at, Client: r.Intn(4), Unit: r.Intn(8)}
		switch x := r.Intn(100); {
		case x < 22 || i == 0:
			op.Kind = "submit"
		case x < 42:
			op.Kind = "status"
		case x < 52:
			op.Kind = "list"
		case x < 64:
			op.Kind = "cancel"
		case x < 76:
			op.Kind = "release"
		case x < 82:
			op.Kind = "force-release"
		case x < 92:
			op.Kind = "results"
		default:
			op.Kind = "burst"
			op.N = r.Range(2, 6)
		}
		if r.Bool(0.08) {
			op.Unit = -1
		}
		if h := simnet.H(seed, "c13alias", i); h%100 < 12 && op.Unit >= 0 {
			switch op.Kind {
			case "status", "cancel", "release", "force-release", "results":
				op.Alias = []string{"%s/", "%s/.", "./%s", "%s//", "../" + "%[2]s/%[1]s"}[(h/100)%5]
			}
		}
		p.Ops = append(p.Ops, op)
	}
	return p
}

type c13Seen struct {
	at    time.Duration
	state int
	size  int64
}

func runC13(t *testing.T, planAny any, res *simnet.Result) {
	p := planAny.(*C13Plan)
	if p.Real != nil {
		runReal(t, p.Real, "c13", res)
		return
	}
	if p.View != nil {
		runStatusHistory(t, p.View, "c13", res)
		return
	}
	runDir := simwork.NewRunDir()
	defer simwork.RemoveRunDir(runDir)
	simnet.Bubble(t, func() {
		w := simnet.NewWorld(res.Seed)
		ctl := simwork.NewStepCtl()
		defer ctl.Close()
		mon := simwork.NewMonitor(ctl)
		m := simnet.NewMesh(w)
		k := simnet.DefaultKnobs()
		k.ServiceAd = 0
		nn := m.AddNode("w0", k)
		node := simwork.NewWorkNode(w, ctl, nn, runDir, []simwork.WorkType{{Name: "echo", Cmd: "@stub"}})
		if err := node.Start(); err != nil {
			res.Violate("harness", "start: %v", err)
			return
		}
		_ = simwork.NewRunners(w, ctl, node, res.Seed, func(n int) simwork.RunnerPlan {
			if len(p.Runners) == 0 {
				return simwork.RunnerPlan{}
			}
			return p.Runners[n%len(p.Runners)]
		})
		var mu sync.Mutex
		var units []string
		released := map[string]time.Duration{}
		seen := map[string][]c13Seen{}
		ids := map[string]int{}
		kinds := map[string]bool{}
		noteStatus := func(unit string, st map[string]any, at time.Duration) {
			s, ok1 := st["State"].(float64)
			sz, ok2 := st["StdoutSize"].(float64)
			if !ok1 || !ok2 {
				return
			}
			mu.Lock()
			seen[unit] = append(seen[unit], c13Seen{at, int(s), int64(sz)})
			mu.Unlock()
		}
		submit := func() {
			c := node.Session("unix")
			defer c.Close()
			_, _ = c.Hello()
			unit, ack, final, err := c.Submit("work submit w0 echo", []byte("x"), 30*time.Second)
			mu.Lock()
			defer mu.Unlock()
			if unit == "" || err != nil {
				res.Violate("c13:submit-failed", "ack=%q final=%q err=%v", ack, final, err)
				return
			}
			ids[unit]++
			if ids[unit] > 1 {
				res.Violate("c13:duplicate-unit-id", "unit ID %s was handed out %d times", unit, ids[unit])
			}
			if fi, err := os.Stat(node.UnitDirReal(unit)); err != nil || !fi.IsDir() {
				res.Violate("c13:no-directory", "unit %s acknowledged but its directory is missing: %v", unit, err)
			}
			units = append(units, unit)
		}
		pick := func(i int) string {
			mu.Lock()
			defer mu.Unlock()
			if i < 0 || len(units) == 0 {
				return "nosuchid"
			}
			return units[i%len(units)]
		}
		spelled := func(op c13Op, unit string) string {
			if op.Alias == "" || unit == "nosuchid" {
				return unit
			}
			res.Add("alias_requests", 1)
			return fmt.Sprintf(op.Alias, unit, path.Base(node.UnitDirReal("")))
		}
		// no two known units may designate one directory
		oneDirPerUnit := func(listed []string, when string) {
			byDir := map[string]string{}
			sort.Strings(listed)
			for _, u := range listed {
				d := path.Clean(path.Join(node.UnitDirReal(""), u))
				if prev, dup := byDir[d]; dup {
					res.Violate("c13:two-units-one-directory", "%s: units %q and %q are both known and share the directory of %s", when, prev, u, path.Base(d))
				}
				byDir[d] = u
			}
		}
		var wg sync.WaitGroup
		ops := append([]c13Op(nil), p.Ops...)
		sort.SliceStable(ops, func(i, j int) bool { return ops[i].AtMs < ops[j].AtMs })
		for oi, op := range ops {
			w.SleepUntil(time.Duration(op.AtMs)*time.Millisecond + time.Duration(oi)*time.Microsecond)
			kinds[op.Kind] = true
			wg.Add(1)
			go func(op c13Op) {
				defer wg.Done()
				switch op.Kind {
				case "submit":
					submit()
				case "burst":
					var bw sync.WaitGroup
					for i := 0; i < op.N; i++ {
						bw.Add(1)
						go func() { defer bw.Done(); submit() }()
					}
					bw.Wait()
				case "status", "cancel", "release", "force-release":
					unit := pick(op.Unit)
					c := node.Session("unix")
					defer c.Close()
					_, _ = c.Hello()
					t0 := w.Now()
					if (op.Kind == "release" || op.Kind == "force-release") && unit != "nosuchid" && simnet.H(res.Seed, "inject", unit, op.AtMs)%2 == 0 {
						// other clients look the unit up (by ID, and through the full list) while its files are being removed
						what := []string{"work status " + unit, "work list", "work list " + unit}[simnet.H(res.Seed, "injectwhat", unit, op.AtMs)%3]
						ctl.InjectOnce("release.rm", "/"+unit, func(string) {
							reply := node.DirectCmd(what)
							mu.Lock()
							res.Add("probe_lookup_during_release", 1)
							_ = reply
							mu.Unlock()
						})
					}
					mu.Lock()
					name := spelled(op, unit)
					mu.Unlock()
					reply, err := c.Cmd("work "+op.Kind+" "+name, 60*time.Second)
					if err != nil {
						mu.Lock()
						res.Violate("c13:no-answer", "work %s %s: no answer within 60 s (%v)", op.Kind, name, err)
						mu.Unlock()
						return
					}
					mu.Lock()
					relAt, wasReleased := released[unit]
					mu.Unlock()
					if strings.HasPrefix(reply, "ERROR") {
						if unit != "nosuchid" && !wasReleased && op.Kind == "status" {
							// a unit may be released concurrently by another client; checked at the end
							_ = relAt
						}
						return
					}
					var v map[string]any
					if json.Unmarshal([]byte(reply), &v) != nil {
						mu.Lock()
						res.Violate("c13:bad-reply", "work %s %s: %q", op.Kind, unit, reply)
						mu.Unlock()
						return
					}
					switch op.Kind {
					case "status":
						noteStatus(unit, v, w.Now())
						if wasReleased && t0 > relAt {
							mu.Lock()
							res.Violate("c13:released-unit-known", "unit %s was released at %v but a status request at %v was answered: %s", unit, relAt, t0, reply)
							mu.Unlock()
						}
					case "release", "force-release":
						if _, ok := v["released"]; ok {
							mu.Lock()
							if _, dup := released[unit]; !dup {
								released[unit] = w.Now()
							}
							mu.Unlock()
							if _, err := os.Stat(node.UnitDirReal(unit)); err == nil {
								mu.Lock()
								res.Violate("c13:released-dir-remains", "unit %s reported released but its directory still exists", unit)
								mu.Unlock()
							}
						}
					}
				case "list":
					c := node.Session("unix")
					defer c.Close()
					_, _ = c.Hello()
					t0 := w.Now()
					reply, err := c.Cmd("work list", 60*time.Second)
					if err != nil {
						mu.Lock()
						res.Violate("c13:no-answer", "work list: no answer within 60 s (%v)", err)
						mu.Unlock()
						return
					}
					var v map[string]map[string]any
					if strings.HasPrefix(reply, "ERROR") || json.Unmarshal([]byte(reply), &v) != nil {
						return
					}
					var listed []string
					for unit, st := range v {
						listed = append(listed, unit)
						noteStatus(path.Base(path.Clean(unit)), st, w.Now())
						mu.Lock()
						if relAt, ok := released[path.Base(path.Clean(unit))]; ok && t0 > relAt {
							res.Violate("c13:released-unit-listed", "unit %s was released at %v but is listed at %v", unit, relAt, t0)
						}
						mu.Unlock()
					}
					mu.Lock()
					oneDirPerUnit(listed, "work list")
					mu.Unlock()
				case "results":
					unit := pick(op.Unit)
					c := node.Session("unix")
					defer c.Close()
					_, _ = c.Hello()
					mu.Lock()
					unit = spelled(op, unit)
					mu.Unlock()
					hdr, err := c.Cmd("work results "+unit+" 0", 60*time.Second)
					if err == nil && strings.HasPrefix(hdr, "Streaming") {
						_, _ = c.ReadAll(20 * time.Second)
					}
				}
			}(op)
		}
		wg.Wait()
		time.Sleep(15 * time.Second)
		simnet.Quiesce()
		// final sweep: every surviving unit's last word, released units unknown
		c := node.Session("unix")
		_, _ = c.Hello()
		for _, unit := range units {
			reply, err := c.Cmd("work status "+unit, 30*time.Second)
			if err != nil {
				res.Violate("c13:no-answer", "final status %s: %v", unit, err)
				break
			}
			if _, rel := released[unit]; rel {
				if !strings.HasPrefix(reply, "ERROR") {
					res.Violate("c13:released-unit-known", "unit %s was released but is still known: %s", unit, reply)
				}
				continue
			}
			var v map[string]any
			if json.Unmarshal([]byte(reply), &v) == nil {
				noteStatus(unit, v, w.Now())
			}
		}
		if reply, err := c.Cmd("work list", 30*time.Second); err != nil {
			res.Violate("c13:no-answer", "final work list: %v", err)
		} else {
			var v map[string]map[string]any
			if json.Unmarshal([]byte(reply), &v) == nil {
				var listed []string
				for unit := range v {
					listed = append(listed, unit)
					if _, rel := released[path.Base(path.Clean(unit))]; rel {
						res.Violate("c13:released-unit-listed", "unit %s was released but is listed at the end", unit)
					}
				}
				oneDirPerUnit(listed, "final work list")
			}
		}
		c.Close()
		// (a) every status rewrite moves forward
		for _, tr := range mon.Transitions() {
			res.Add("status_writes_observed", 1)
			if why := simwork.CheckForward(tr); why != "" {
				res.Violate("c13:backward-write", "unit %s (%s by %s): %s", tr.Unit, tr.Kind, shortBy(tr.By), why)
			}
		}
		// (b) what clients were told moves forward too
		for unit, ss := range seen {
			sort.SliceStable(ss, func(i, j int) bool { return ss[i].at < ss[j].at })
			for i := 1; i < len(ss); i++ {
				a, b := ss[i-1], ss[i]
				if a.at == b.at {
					continue
				}
				if simwork.Stage(b.state) < simwork.Stage(a.state) {
					res.Violate("c13:backward-report", "unit %s reported state %d at %v after state %d at %v", unit, b.state, b.at, a.state, a.at)
				}
				if a.state == 2 && (b.state != 2 || b.size != a.size) {
					res.Violate("c13:succeeded-changed", "unit %s reported succeeded/%d at %v and then state %d/%d at %v", unit, a.size, a.at, b.state, b.size, b.at)
				}
				if a.state == 1 && b.state == 1 && b.size < a.size {
					res.Violate("c13:size-shrank", "unit %s reported size %d at %v and then %d at %v while running", unit, a.size, a.at, b.size, b.at)
				}
			}
			res.Add("status_reports_checked", int64(len(ss)))
		}
		// (d) one directory per ID
		dirs, _ := os.ReadDir(node.UnitDirReal(""))
		for _, d := range dirs {
			if _, ok := ids[d.Name()]; !ok {
				res.Violate("c13:stray-directory", "directory %s belongs to no acknowledged unit", d.Name())
			}
		}
		res.Add("units_submitted", int64(len(units)))
		res.Add("units_released", int64(len(released)))
		res.SimSeconds = w.Now().Seconds()
		res.LogHash, res.LogLines = w.CanonicalLogHash()
		res.Merge(w.Stats())
		res.Merge(ctl.Stats())
		res.Class = fmt.Sprintf("units=%d rel=%d kinds=%s", len(units), len(released), strings.Join(simnet.SortedKeys(kinds), "+"))
		node.Crash()
		time.Sleep(3 * time.Second)
	})
}

func shortBy(p string) string {
	if i := strings.Index(p, "/data-"); i >= 0 {
		p = p[i+1:]
	}
	return p
}

func TestC13(t *testing.T) {
	quietNamed()
	defer simwork.CleanupScratch()
	simnet.RunCheck(t, simnet.Check{ID: "C13", Gen: genC13, NewPlan: func() any { return &C13Plan{} }, Run: runC13})
}
