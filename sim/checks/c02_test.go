package checks

import (
	"bytes"
	"encoding/hex"
	"fmt"
	"sort"
	"sync"
	"testing"
	"time"

	"github.com/ansible/receptor/pkg/netceptor"
	"verif/sim/simnet"
)

// C02 — datagrams arrive intact, only at the addressed service, with the true source.

type c02Link struct {
	Name   string `json:"name"`
	A      int    `json:"a"`
	B      int    `json:"b"`
	Framed bool   `json:"framed"`
	LatUs  int    `json:"lat_us"`
}

type c02Send struct {
	AtUs    int    `json:"at_us"`
	From    int    `json:"from"`     // node index
	FromSvc int    `json:"from_svc"` // listener index on that node
	To      int    `json:"to"`
	ToSvc   int    `json:"to_svc"`
	Len     int    `json:"len"`
	Hops    int    `json:"hops,omitempty"` // 0 = default
	Cut     string `json:"cut,omitempty"`  // fault batch: cut this link just before
}

type C02Plan struct {
	TightHops bool       `json:"tight_hops"` // the nodes' hop limit equals the longest route of the mesh
	NodeIDs   []string   `json:"node_ids"`   // hex-encoded bytes
	Services  [][]string `json:"services"`   // per node, hex-encoded names
	Links     []c02Link  `json:"links"`
	Sends     []c02Send  `json:"sends"`
	Faults    bool       `json:"faults"`
	Shrink    []string   `json:"_shrink"`
}

var c02NodeNames = []string{"a", "A", "node one", "n:x", "nöde-ü", "zz", "Zz", "localhos", "x.y.example.com", "n0", "n00",
	"a-rather-long-node-name-that-goes-on-and-on-0123456789-0123456789-0123456789", "日本", "q\tq", "-", "_", "N:x"}

func genC02(seed uint64, tier string) any {
	r := simnet.NewRng(seed, "c02")
	p := &C02Plan{Shrink: []string{"sends"}}
	n := r.Range(2, 6)
	names := append([]string(nil), c02NodeNames...)
	simnet.Shuffle(r, names)
	for i := 0; i < n; i++ {
		p.NodeIDs = append(p.NodeIDs, hex.EncodeToString([]byte(names[i])))
	}
	svcPool := func() string {
		switch r.Intn(8) {
		case 0:
			return "a"
		case 1:
			return "ab"
		case 2:
			return "abcdefgh" // exactly 8
		case 3:
			return "abcdefg"
		case 4:
			return string([]byte{0xff, 0xfe, 0x80})
		case 5:
			return "ping2"
		case 6:
			return "unreac"
		default:
			b := r.Bytes(r.Range(1, 8))
			for i := range b {
				if b[i] == 0 {
					b[i] = 1
				}
			}
			return string(b)
		}
	}
	for i := 0; i < n; i++ {
		seen := map[string]bool{"ping": true, "unreach": true}
		var ss []string
		for k := r.Range(1, 4); k > 0; k-- {
			s := svcPool()
			if !seen[s] {
				seen[s] = true
				ss = append(ss, hex.EncodeToString([]byte(s)))
			}
		}
		if len(ss) == 0 {
			ss = []string{hex.EncodeToString([]byte("svc"))}
		}
		p.Services = append(p.Services, ss)
	}
	// connected graph: chain-ish tree (long paths) plus extras
	k := 0
	add := func(a, b int) {
		k++
		p.Links = append(p.Links, c02Link{Name: fmt.Sprintf("L%d", k), A: a, B: b, Framed: r.Bool(0.5), LatUs: r.Range(300, 20000)})
	}
	for i := 1; i < n; i++ {
		if r.Bool(0.6) {
			add(i-1, i)
		} else {
			add(r.Intn(i), i)
		}
	}
	if r.Bool(0.3) && n > 2 {
		a, b := r.Intn(n), r.Intn(n)
		if a != b && a+1 != b && b+1 != a {
			add(a, b)
		}
	}
	p.Faults = r.Bool(0.2)
	p.TightHops = r.Bool(0.3)
	ns := r.Range(20, 120)
	if tier == "thorough" {
		ns = r.Range(50, 400)
	}
	sizes := []int{0, 1, 2, 7, 8, 9, 15, 16, 35, 36, 37, 255, 256, 1199, 1200, 4095, 4096, 16383 - 36, 16384 - 36, 16383, 16384}
	at := 0
	for i := 0; i < ns; i++ {
		if !r.Bool(0.5) {
			at += r.Intn(20000) // otherwise: same instant, concurrent senders
		}
		s := c02Send{AtUs: at, From: r.Intn(n), To: r.Intn(n)}
		s.FromSvc = r.Intn(len(p.Services[s.From]))
		s.ToSvc = r.Intn(len(p.Services[s.To]))
		if r.Bool(0.5) {
			s.Len = simnet.Pick(r, sizes)
		} else {
			s.Len = r.Intn(3000)
		}
		if p.Faults && r.Bool(0.05) {
			s.Cut = simnet.Pick(r, p.Links).Name
		}
		p.Sends = append(p.Sends, s)
	}
	return p
}

type c02Recv struct {
	node, svc string
	from      string
	data      []byte
}

func unhex(s string) string {
	b, _ := hex.DecodeString(s)
	return string(b)
}

func runC02(t *testing.T, planAny any, res *simnet.Result) {
	p := planAny.(*C02Plan)
	simnet.Bubble(t, func() {
		w := simnet.NewWorld(res.Seed)
		w.MsgBudget = 1000000
		m := simnet.NewMesh(w)
		k := simnet.DefaultKnobs()
		k.ServiceAd = 0
		k.MTU = 16384
		if p.TightHops {
			// "over any number of forwarding hops ... up to the hop limit": the longest shortest path, in links
			adj := map[int][]int{}
			for _, pl := range p.Links {
				adj[pl.A] = append(adj[pl.A], pl.B)
				adj[pl.B] = append(adj[pl.B], pl.A)
			}
			diam := 1
			for s0 := range p.NodeIDs {
				dist := map[int]int{s0: 0}
				q := []int{s0}
				for len(q) > 0 {
					x := q[0]
					q = q[1:]
					for _, y := range adj[x] {
						if _, ok := dist[y]; !ok {
							dist[y] = dist[x] + 1
							q = append(q, y)
							if dist[y] > diam {
								diam = dist[y]
							}
						}
					}
				}
			}
			k.MaxHops = diam
		}
		ids := make([]string, len(p.NodeIDs))
		for i, h := range p.NodeIDs {
			ids[i] = unhex(h)
			m.AddNode(ids[i], k)
		}
		for _, pl := range p.Links {
			if pl.A >= len(ids) || pl.B >= len(ids) {
				continue
			}
			cfg := simnet.LinkCfg{Name: pl.Name, Latency: time.Duration(pl.LatUs)*time.Microsecond + time.Duration(simnet.H(res.Seed, "lat", pl.Name)%977)*time.Nanosecond,
				FIFO: true, Framed: pl.Framed}
			l := m.AddLink(cfg, ids[pl.A], ids[pl.B], 1)
			_ = m.Up(l)
		}
		// listeners
		var mu sync.Mutex
		var recvd []c02Recv
		pcs := map[string]netceptor.PacketConner{}
		stop := make(chan struct{})
		for i, id := range ids {
			if i >= len(p.Services) {
				break
			}
			for _, sh := range p.Services[i] {
				svc := unhex(sh)
				pc, err := m.Nodes[id].Net().ListenPacket(svc)
				if err != nil {
					res.Violate("harness", "listen %q/%q: %v", id, svc, err)
					continue
				}
				pcs[id+"\x00"+svc] = pc
				go func(id, svc string, pc netceptor.PacketConner) {
					buf := make([]byte, 70000)
					for {
						n, addr, err := pc.ReadFrom(buf)
						if err != nil {
							return
						}
						mu.Lock()
						recvd = append(recvd, c02Recv{node: id, svc: svc, from: addr.String(), data: append([]byte(nil), buf[:n]...)})
						mu.Unlock()
					}
				}(id, svc, pc)
			}
		}
		time.Sleep(6 * time.Second) // converge
		base := w.Now()
		type sent struct {
			c02Send
			data []byte
			err  error
		}
		sends := make([]*sent, 0, len(p.Sends))
		var wg sync.WaitGroup
		anyCut := false
		for i, s := range p.Sends {
			if s.From >= len(ids) || s.To >= len(ids) || s.FromSvc >= len(p.Services[s.From]) || s.ToSvc >= len(p.Services[s.To]) {
				continue
			}
			w.SleepUntil(base + time.Duration(s.AtUs)*time.Microsecond)
			if s.Cut != "" {
				if l := m.Links[s.Cut]; l != nil && l.Up() {
					l.Cut()
					anyCut = true
				}
			}
			data := simnet.NewRng(res.Seed, fmt.Sprintf("payload%d", i)).Bytes(s.Len)
			if s.Len >= 16 {
				copy(data, fmt.Sprintf("TAG%013d", i))
			}
			st := &sent{c02Send: s, data: data}
			sends = append(sends, st)
			pc := pcs[ids[s.From]+"\x00"+unhex(p.Services[s.From][s.FromSvc])]
			if pc == nil {
				continue
			}
			wg.Add(1)
			go func() {
				defer wg.Done()
				addr := m.Nodes[ids[s.From]].Net().NewAddr(ids[s.To], unhex(p.Services[s.To][s.ToSvc]))
				n, err := pc.WriteTo(st.data, addr)
				st.err = err
				if err == nil && n != len(st.data) {
					st.err = fmt.Errorf("short write %d of %d", n, len(st.data))
				}
			}()
		}
		time.Sleep(5 * time.Second)
		simnet.Quiesce()
		wg.Wait()
		mu.Lock()
		got := append([]c02Recv(nil), recvd...)
		mu.Unlock()
		// expected multiset per listener
		key := func(node, svc, from string, data []byte) string {
			return node + "\x00" + svc + "\x00" + from + "\x00" + string(data)
		}
		want := map[string]int{}
		for _, st := range sends {
			from := ids[st.From] + ":" + unhex(p.Services[st.From][st.FromSvc])
			k := key(ids[st.To], unhex(p.Services[st.To][st.ToSvc]), from, st.data)
			if st.err != nil {
				if !anyCut {
					res.Violate("c02:write-failed", "WriteTo %q:%q -> %q:%q len %d on a converged mesh failed: %v", ids[st.From], unhex(p.Services[st.From][st.FromSvc]),
						ids[st.To], unhex(p.Services[st.To][st.ToSvc]), st.Len, st.err)
				}
				continue
			}
			want[k]++
		}
		have := map[string]int{}
		for _, g := range got {
			k := key(g.node, g.svc, g.from, g.data)
			have[k]++
			if have[k] > want[k] {
				// classify: wrong listener / altered / duplicate
				sig := "c02:unexpected-datagram"
				for _, st := range sends {
					if bytes.Equal(st.data, g.data) && len(g.data) >= 16 {
						toNode, toSvc := ids[st.To], unhex(p.Services[st.To][st.ToSvc])
						from := ids[st.From] + ":" + unhex(p.Services[st.From][st.FromSvc])
						switch {
						case toNode != g.node || toSvc != g.svc:
							sig = "c02:wrong-listener"
						case from != g.from:
							sig = "c02:wrong-source"
						default:
							sig = "c02:duplicate"
						}
					}
				}
				res.Violate(sig, "listener %q/%q got a datagram (len %d, from %q) that no send accounts for", g.node, g.svc, len(g.data), g.from)
			}
		}
		if !anyCut {
			for k, c := range want {
				if have[k] < c {
					parts := bytes.SplitN([]byte(k), []byte{0}, 4)
					res.Violate("c02:lost-or-altered", "datagram to %q/%q from %q len %d sent %d time(s), received intact %d time(s)",
						parts[0], parts[1], parts[2], len(parts[3]), c, have[k])
				}
			}
		}
		res.Add("datagrams_sent", int64(len(sends)))
		res.Add("datagrams_received", int64(len(got)))
		res.SimSeconds = w.Now().Seconds()
		res.LogHash, res.LogLines = w.CanonicalLogHash()
		res.Merge(w.Stats())
		framed := 0
		for _, l := range p.Links {
			if l.Framed {
				framed++
			}
		}
		maxLen := 0
		lens := map[int]bool{}
		for _, s := range sends {
			lens[s.Len] = true
			if s.Len > maxLen {
				maxLen = s.Len
			}
		}
		names := append([]string(nil), ids...)
		sort.Strings(names)
		res.Class = fmt.Sprintf("n=%d links=%d framed=%d cut=%v sizes=%d ids=%x", len(ids), len(p.Links), framed, anyCut, len(lens), simnet.H(0, fmt.Sprint(names))&0xffff)
		close(stop)
		for _, pc := range pcs {
			_ = pc.Close()
		}
		for _, n := range m.Nodes {
			n.Stop()
		}
		time.Sleep(3 * time.Second)
	})
}

func TestC02(t *testing.T) {
	quiet()
	simnet.RunCheck(t, simnet.Check{ID: "C02", Gen: genC02, NewPlan: func() any { return &C02Plan{} }, Run: runC02})
}
