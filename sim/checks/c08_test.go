//go:build verif

package checks

import (
	"encoding/json"
	"fmt"
	"strings"
	"sync"
	"testing"
	"time"

	"verif/sim/simnet"
	"verif/sim/simwork"
)

// C08 — no control-service input can crash or wedge a node; sessions are isolated.

type c08Input struct {
	Client int    `json:"client"`
	Kind   string `json:"kind"`
	A      int    `json:"a,omitempty"`
	B      int    `json:"b,omitempty"`
	S      string `json:"s,omitempty"`
	Net    string `json:"net,omitempty"` // unix | tcp
}

type C08Plan struct {
	Inputs []c08Input `json:"inputs"`
	Shrink []string   `json:"_shrink"`
}

var c08Kinds = []string{"unknown-cmd", "json-nocmd", "json-cmdtype", "json-broken", "field-type", "work-sub-type", "work-missing", "work-badid",
	"work-pathid", "results-bad", "long-line", "unterminated", "binary", "disconnect-midline", "submit-abort", "valid-status", "valid-ping",
	"valid-list", "json-deep", "crlf", "empty-lines", "work-unknown-type", "results-released", "connect-bad", "reload", "traceroute-bad", "disk-only"}

var c08JSONVals = []string{`null`, `5`, `-1.5`, `"x"`, `""`, `[]`, `{}`, `true`, `[1,"a"]`, `{"a":1}`, `1e400`, `[[]]`}

func genC08(seed uint64, tier string) any {
	r := simnet.NewRng(seed, "c08")
	p := &C08Plan{Shrink: []string{"inputs"}}
	n := r.Range(5, 18)
	if tier == "thorough" {
		n = r.Range(10, 45)
	}
	for i := 0; i < n; i++ {
		in := c08Input{Client: r.Intn(4), Kind: simnet.Pick(r, c08Kinds), A: r.Intn(1 << 16), B: r.Intn(1 << 16), Net: simnet.Pick(r, []string{"unix", "tcp"})}
		if in.Kind == "binary" {
			in.S = fmt.Sprintf("%x", r.Bytes(r.Range(1, 60)))
		}
		p.Inputs = append(p.Inputs, in)
	}
	return p
}

// c08Render returns the bytes to send, whether an ERROR reply is required, and
// whether the session is expected to be usable afterwards.
func c08Render(in c08Input, units []string, self string) (data []byte, mustError bool, sessionUsable bool, closeAfter bool) {
	pick := func(xs []string, k int) string { return xs[k%len(xs)] }
	unit := "nosuch"
	if len(units) > 0 {
		unit = units[in.A%len(units)]
	}
	line := func(s string) []byte { return []byte(s + "\n") }
	switch in.Kind {
	case "unknown-cmd":
		return line(pick([]string{"frobnicate", "WORKX list", "statu", "pingg a", "work2", "?", "help", "work", "ping"}, in.A)), true, true, false
	case "json-nocmd":
		return line(pick([]string{`{}`, `{"cmd":"status"}`, `{"Command":"status"}`, `{"subcommand":"list"}`}, in.A)), true, true, false
	case "json-cmdtype":
		return line(`{"command":` + pick(c08JSONVals[:3], in.A) + `}`), true, true, false
	case "json-broken":
		return line(pick([]string{`{`, `{"command":"status"`, `{"command":}`, `{"command":"status",}`, `{'command':'status'}`, `{"command":"status"}}`, "{\"command\":\"st\xffatus\"}"}, in.A)), true, true, false
	case "json-deep":
		d := 100 + in.A%3000
		return line(`{"command":"status","x":` + strings.Repeat("[", d) + strings.Repeat("]", d) + `}`), false, true, false
	case "field-type":
		// every built-in command with one of its fields of a wrong JSON type
		cmdField := [][2]string{{"ping", "target"}, {"traceroute", "target"}, {"status", "requested_fields"}, {"connect", "node"}, {"connect", "service"}, {"connect", "tls"}}
		cf := cmdField[in.A%len(cmdField)]
		val := pick(c08JSONVals, in.B)
		if cf[1] == "requested_fields" {
			val = pick([]string{`5`, `"x"`, `{}`, `null`, `true`, `[1]`, `[null]`, `[["a"]]`, `-1.5`}, in.B)
		} else if val == `"x"` || val == `""` {
			val = `7`
		}
		obj := map[string]string{"connect": `"node":"` + self + `","service":"nosvc",`}[cf[0]]
		return line(`{"command":"` + cf[0] + `",` + obj + `"` + cf[1] + `":` + val + `}`), true, true, false
	case "work-sub-type":
		return line(`{"command":"work","subcommand":` + pick(append(c08JSONVals[:2], c08JSONVals[5:]...), in.A) + `}`), true, true, false
	case "work-missing":
		return line(pick([]string{"work status", "work cancel", "work release", "work force-release", "work results", "work submit", "work submit " + self,
			`{"command":"work","subcommand":"status"}`, `{"command":"work","subcommand":"results","unitid":"x"}`, `{"command":"work","subcommand":"submit","node":"` + self + `"}`,
			`{"command":"work","subcommand":"cancel","unitid":5}`, `{"command":"work","subcommand":"submit","node":"` + self + `","worktype":"echo","params":5}`,
			"work status a b", "work results a 1 2", "work bogus", `{"command":"work","subcommand":"bogus"}`, `{"command":"work"}`}, in.A)), true, true, false
	case "work-badid":
		return line(pick([]string{"work status ", "work cancel ", "work release ", "work force-release "}, in.A) + pick([]string{"nosuchunit", "AAAAAAAA", "0", "-", "%s%s%n", strings.Repeat("u", 4000)}, in.B)), true, true, false
	case "work-pathid":
		return line(pick([]string{"work status ", "work cancel ", "work results "}, in.A) + pick([]string{"../" + self, "./" + unit, unit + "/", unit + "/status", "a/b", "..", ".", "/etc", "../..", "~", unit + "/../" + unit}, in.B)), false, false, false
	case "results-bad":
		return line(pick([]string{"work results " + unit + " abc", "work results " + unit + " 1.5", "work results nosuch 0", `{"command":"work","subcommand":"results","unitid":"` + unit + `","startpos":"zz"}`,
			`{"command":"work","subcommand":"results","unitid":"` + unit + `","startpos":[]}`, `{"command":"work","subcommand":"results","unitid":"` + unit + `"}`}, in.A)), true, true, false
	case "results-released":
		return line("work results nosuch" + fmt.Sprint(in.A%7) + " 0"), true, true, false
	case "work-unknown-type":
		return line(pick([]string{"work submit " + self + " nosuchtype", `{"command":"work","subcommand":"submit","node":"` + self + `","worktype":"nosuchtype"}`,
			`{"command":"work","subcommand":"submit","node":"localhost","worktype":""}`, "work submit " + self + " echo extra params"}, in.A)), true, true, false
	case "connect-bad":
		return line(pick([]string{"connect", "connect a", "connect a b c d", "connect " + self + " nosvc nosuchtls", `{"command":"connect","node":"` + self + `","service":"x","tls":"nosuchtls"}`}, in.A)), true, true, false
	case "traceroute-bad":
		return line(pick([]string{"traceroute", `{"command":"traceroute"}`}, in.A)), true, true, false
	case "reload":
		return line(pick([]string{"reload", `{"command":"reload"}`, "reload now"}, in.A)), false, true, false
	case "long-line":
		return line(strings.Repeat(pick([]string{"x", "work ", "{", "q "}, in.A), 5000+in.B%100000)), true, true, false
	case "unterminated":
		return []byte("status-without-newline" + fmt.Sprint(in.A)), false, false, true
	case "binary":
		var b []byte
		_, _ = fmt.Sscanf(in.S, "%x", &b)
		return append(b, '\n'), false, true, false
	case "disconnect-midline":
		return []byte(`{"command":"work","subcommand":"sub`), false, false, true
	case "submit-abort":
		// a submit whose client goes away while the daemon waits for stdin
		return line("work submit " + self + " echo"), false, false, true
	case "crlf":
		return []byte("status\r\n"), false, true, false
	case "empty-lines":
		return []byte("\n\n\r\n\n"), false, true, false
	case "valid-status":
		return line(pick([]string{"status", `{"command":"status"}`, `{"command":"status","requested_fields":["NodeID"]}`, `{"command":"status","requested_fields":[]}`, "work status " + unit}, in.A)), false, true, false
	case "valid-ping":
		return line(pick([]string{"ping " + self, `{"command":"ping","target":"` + self + `"}`, "ping nosuchnode"}, in.A)), false, true, false
	case "valid-list":
		return line(pick([]string{"work list", `{"command":"work","subcommand":"list"}`, "work list " + unit, `{"command":"work","subcommand":"list","unitid":5}`}, in.A)), false, true, false
	case "disk-only":
		return line("work status diskonly" + fmt.Sprint(in.A%3)), false, true, false
	}
	return line("status"), false, true, false
}

func runC08(t *testing.T, planAny any, res *simnet.Result) {
	p := planAny.(*C08Plan)
	runDir := simwork.NewRunDir()
	defer simwork.RemoveRunDir(runDir)
	simnet.Bubble(t, func() {
		w := simnet.NewWorld(res.Seed)
		ctl := simwork.NewStepCtl()
		defer ctl.Close()
		m := simnet.NewMesh(w)
		k := simnet.DefaultKnobs()
		k.ServiceAd = 0
		nn := m.AddNode("w0", k)
		node := simwork.NewWorkNode(w, ctl, nn, runDir, []simwork.WorkType{{Name: "echo", Cmd: "@stub"}})
		if err := node.Start(); err != nil {
			res.Violate("harness", "start: %v", err)
			return
		}
		_ = simwork.NewRunners(w, ctl, node, res.Seed, func(n int) simwork.RunnerPlan {
			return simwork.RunnerPlan{Chunks: []int{10 + n, 2000}, PauseMs: []int{100, 400 + 300*n}, ExitFail: n%3 == 2, EndMs: 100}
		})
		// units in several states: finished, running, failed
		var units []string
		for i := 0; i < 3; i++ {
			c := node.Session("unix")
			_, _ = c.Hello()
			id, _, _, _ := c.Submit("work submit w0 echo", []byte("in"), 10*time.Second)
			c.Close()
			if id != "" {
				units = append(units, id)
			}
			time.Sleep(300 * time.Millisecond)
		}
		// units that exist only on disk
		if len(units) > 0 {
			for i := 0; i < 3; i++ {
				_ = copyDir(node.UnitDirReal(units[0]), node.UnitDirReal(fmt.Sprintf("diskonly%d", i)))
			}
		}
		var mu sync.Mutex
		probe := func(after string) bool {
			c := node.Session("unix")
			defer c.Close()
			if _, err := c.Hello(); err != nil {
				mu.Lock()
				res.Violate("c08:node-wedged|hello", "after %s: a fresh control session gets no greeting: %v", after, err)
				mu.Unlock()
				return false
			}
			for _, cmd := range []string{"status", "work list", "ping w0"} {
				reply, err := c.Cmd(cmd, 15*time.Second)
				if err != nil || strings.HasPrefix(reply, "ERROR") || !strings.HasPrefix(reply, "{") {
					mu.Lock()
					res.Violate("c08:node-wedged|"+strings.Fields(cmd)[0], "after %s: probe %q on a fresh session: reply %q err %v", after, cmd, trunc(reply), err)
					mu.Unlock()
					return false
				}
			}
			return true
		}
		byClient := map[int][]c08Input{}
		for _, in := range p.Inputs {
			byClient[in.Client%4] = append(byClient[in.Client%4], in)
		}
		kinds := map[string]bool{}
		var wg sync.WaitGroup
		for cl, ins := range byClient {
			wg.Add(1)
			go func(cl int, ins []c08Input) {
				defer wg.Done()
				var c *simwork.Client
				for i, in := range ins {
					time.Sleep(time.Duration(50+cl*7+i) * time.Millisecond)
					if c == nil {
						c = node.Session(in.Net)
						if _, err := c.Hello(); err != nil {
							mu.Lock()
							res.Violate("c08:node-wedged|hello", "client %d: no greeting: %v", cl, err)
							mu.Unlock()
							return
						}
					}
					data, mustErr, usable, closeAfter := c08Render(in, units, "w0")
					mu.Lock()
					kinds[in.Kind] = true
					res.Add("inputs_sent", 1)
					mu.Unlock()
					desc := fmt.Sprintf("input %s %q", in.Kind, trunc(string(data)))
					_, _ = c.C.Write(data)
					if closeAfter {
						time.Sleep(20 * time.Millisecond)
						c.Close()
						c = nil
						if !probe(desc + " + disconnect") {
							return
						}
						continue
					}
					if mustErr {
						reply, err := c.ReadLine(20 * time.Second)
						if err != nil || !strings.HasPrefix(reply, "ERROR") {
							mu.Lock()
							res.Violate("c08:no-error-reply|"+in.Kind, "%s: expected a reply line starting with ERROR, got %q (err %v)", desc, trunc(reply), err)
							mu.Unlock()
							c.Close()
							c = nil
							if !probe(desc) {
								return
							}
							continue
						}
						mu.Lock()
						res.Add("error_replies_checked", 1)
						mu.Unlock()
					}
					if !usable {
						c.Close()
						c = nil
					} else {
						// the same session keeps answering: drain whatever the input produced, then probe it
						time.Sleep(300 * time.Millisecond)
						_ = c.C.SetReadDeadline(time.Now().Add(200 * time.Millisecond))
						for {
							if _, err := c.R.ReadString('\n'); err != nil {
								break
							}
						}
						reply, err := c.Cmd(`{"command":"status","requested_fields":["NodeID"]}`, 15*time.Second)
						if err != nil || !strings.Contains(reply, `"NodeID":"w0"`) {
							mu.Lock()
							res.Violate("c08:session-wedged|"+in.Kind, "%s: the same session no longer answers a well-formed command: %q (err %v)", desc, trunc(reply), err)
							mu.Unlock()
							c.Close()
							c = nil
						}
					}
					if !probe(desc) {
						return
					}
				}
				if c != nil {
					c.Close()
				}
			}(cl, ins)
		}
		wg.Wait()
		probe("all inputs")
		// the units that were there are still there and still answer
		c := node.Session("unix")
		_, _ = c.Hello()
		for _, u := range units {
			reply, err := c.Cmd("work status "+u, 15*time.Second)
			var v map[string]any
			if err != nil || json.Unmarshal([]byte(reply), &v) != nil {
				res.Violate("c08:unit-broken", "unit %s no longer answers status after the inputs: %q %v", u, trunc(reply), err)
			}
		}
		c.Close()
		// sessions are isolated also when they overlap inside one another's commands: while one session's release is
		// removing a unit's files, other sessions ask for the full list and for that unit
		if len(units) > 0 && len(res.Violations) == 0 {
			u := units[int(simnet.H(res.Seed, "overlap-unit")%uint64(len(units)))]
			var answers []string
			var amu sync.Mutex
			ctl.InjectOnce("release.rm", "/"+u, func(string) {
				for _, q := range []string{"work list", "work status " + u} {
					r := node.DirectCmd(q)
					amu.Lock()
					answers = append(answers, r)
					amu.Unlock()
				}
			})
			rc := node.Session("unix")
			_, _ = rc.Hello()
			if reply, err := rc.Cmd("work release "+u, 30*time.Second); err != nil {
				res.Violate("c08:no-answer|release-overlap", "work release %s got no answer in 30 s while other sessions were listing units (%q, %v)", u, trunc(reply), err)
			}
			rc.Close()
			res.Add("probe_overlapping_sessions", 1)
			probe("overlapping release and list")
			// two sessions ask about a unit that so far exists only on disk, the second while the first is loading it
			if src := units[0]; src != u || len(units) > 1 {
				if src == u {
					src = units[1]
				}
				id := "diskonlyZ"
				if copyDir(node.UnitDirReal(src), node.UnitDirReal(id)) == nil {
					ctl.InjectOnce("load.lock", "/"+id+"/", func(string) { _ = node.DirectCmd("work status " + id) })
					qc := node.Session("unix")
					_, _ = qc.Hello()
					if reply, err := qc.Cmd("work status "+id, 30*time.Second); err != nil {
						res.Violate("c08:no-answer|first-touch-overlap", "work status for a disk-only unit got no answer in 30 s while another session asked about the same unit (%q, %v)", trunc(reply), err)
					}
					qc.Close()
					res.Add("probe_overlapping_first_touch", 1)
					probe("overlapping first touch of a disk-only unit")
				}
			}
		}
		res.SimSeconds = w.Now().Seconds()
		res.LogHash, res.LogLines = w.CanonicalLogHash()
		res.Merge(w.Stats())
		res.Class = strings.Join(simnet.SortedKeys(kinds), "+")
		node.Crash()
		time.Sleep(3 * time.Second)
	})
}

func trunc(s string) string {
	if len(s) > 200 {
		return s[:200] + "…"
	}
	return s
}

func TestC08(t *testing.T) {
	quiet()
	defer simwork.CleanupScratch()
	simnet.RunCheck(t, simnet.Check{ID: "C08", Gen: genC08, NewPlan: func() any { return &C08Plan{} }, Run: runC08})
}
