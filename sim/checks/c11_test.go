package checks

import (
	"context"
	"fmt"
	"sort"
	"strings"
	"testing"
	"time"

	"github.com/ansible/receptor/pkg/netceptor"
	"verif/sim/simnet"
)

// C11 — only admissible peers stay connected: allow-list, identity, cost, one per ID.

type c11Backend struct {
	Allow    []string       `json:"allow"` // nil: no allow-list
	HasAllow bool           `json:"has_allow"`
	CostK    int            `json:"cost_k"`
	Override map[string]int `json:"override,omitempty"`
}

type c11Step struct {
	Kind    string `json:"kind"` // hello update close pair
	Slot    int    `json:"slot"`
	Slot2   int    `json:"slot2,omitempty"` // pair: second session, same instant
	ID      string `json:"id"`              // announced ForwardingNode
	Origin  string `json:"origin,omitempty"`
	ListV   bool   `json:"list_v,omitempty"`
	CostK   int    `json:"cost_k,omitempty"` // -1: the cost the victim expects
	Framed  bool   `json:"framed,omitempty"`
	DelayUs int    `json:"delay_us,omitempty"`
	Blocked bool   `json:"blocked,omitempty"` // pair: the first peer does not read, so the victim's writes to it block
	Bye     bool   `json:"bye,omitempty"`     // hello: the peer's transport ends right behind its handshake message
}

type C11Plan struct {
	Backends []c11Backend `json:"backends"`
	SlotBk   []int        `json:"slot_backend"` // backend of each session slot
	Steps    []c11Step    `json:"steps"`
	Parked   bool         `json:"parked"` // finish with the parked-session scenario
	Dup      bool         `json:"dup"`    // run the same-ID scenario instead
	DupN     int          `json:"dup_n"`
	DupAt    [2]int       `json:"dup_at"`
	DupGapMs int          `json:"dup_gap_ms"`
	Shrink   []string     `json:"_shrink"`
}

var c11IDs = []string{"", "v", "p1", "p2", "p3", "P1", "a", "a0"}

func genC11(seed uint64, tier string) any {
	r := simnet.NewRng(seed, "c11")
	p := &C11Plan{Shrink: []string{"steps"}}
	if r.Bool(0.2) {
		p.Dup = true
		p.DupN = r.Range(3, 5)
		p.DupAt = [2]int{r.Intn(p.DupN), r.Intn(p.DupN)}
		for p.DupAt[1] == p.DupAt[0] {
			p.DupAt[1] = r.Intn(p.DupN)
		}
		p.DupGapMs = r.Range(1100, 9000)
		return p
	}
	nb := r.Range(1, 3)
	for i := 0; i < nb; i++ {
		b := c11Backend{CostK: r.Range(1, 50)}
		if r.Bool(0.5) {
			b.HasAllow = true
			for _, id := range c11IDs {
				if r.Bool(0.4) {
					b.Allow = append(b.Allow, id)
				}
			}
		}
		if r.Bool(0.4) {
			b.Override = map[string]int{simnet.Pick(r, c11IDs[2:7]): r.Range(51, 90)}
		}
		p.Backends = append(p.Backends, b)
	}
	ns := r.Range(2, 5)
	for i := 0; i < ns; i++ {
		p.SlotBk = append(p.SlotBk, r.Intn(nb))
	}
	n := r.Range(4, 14)
	if tier == "thorough" {
		n = r.Range(6, 30)
	}
	for i := 0; i < n; i++ {
		st := c11Step{Slot: r.Intn(ns), ID: simnet.Pick(r, c11IDs)}
		switch x := r.Intn(100); {
		case x < 40:
			st.Kind = "hello"
			st.ListV = r.Bool(0.5)
			st.CostK = -1
			if r.Bool(0.3) {
				st.Origin = simnet.Pick(r, c11IDs)
			}
			st.Bye = r.Bool(0.25)
		case x < 75:
			st.Kind = "update"
			st.ListV = r.Bool(0.7)
			st.CostK = -1
			if r.Bool(0.3) {
				st.CostK = r.Range(1, 90)
			}
			if r.Bool(0.7) {
				st.ID = "=" // same as the session's identity
			}
			if r.Bool(0.25) {
				st.Origin = simnet.Pick(r, c11IDs)
			}
		case x < 87:
			st.Kind = "close"
		default:
			st.Kind = "pair"
			st.Slot2 = r.Intn(ns)
			st.DelayUs = r.Intn(3) * 500
			st.Blocked = r.Bool(0.5)
		}
		p.Steps = append(p.Steps, st)
	}
	p.Parked = r.Bool(0.3)
	return p
}

type c11Sess struct {
	link   *simnet.Link
	sess   *simnet.Session
	open   bool // model: session not ended
	est    bool // model: established
	id     string
	cost   float64
	remEst bool
	mark   int // wire index when the session was opened
}

func runC11(t *testing.T, planAny any, res *simnet.Result) {
	p := planAny.(*C11Plan)
	if p.Dup {
		runC11Dup(t, p, res)
		return
	}
	simnet.Bubble(t, func() {
		w := simnet.NewWorld(res.Seed)
		// the handshake is spread over simulated time at its yield points (before the already-connected check, after admission)
		defer installYields(res.Seed, 0.4, "handshake.check", "handshake.admitted")()
		m := simnet.NewMesh(w)
		k := simnet.DefaultKnobs()
		k.ServiceAd = 0
		k.RouteUpdate = time.Hour
		k.MaxIdle = 3 * time.Hour
		v := m.AddNode("v", k)
		// one well-behaved neighbour so the victim has a mesh to announce into
		m.AddNode("a0", k)
		l0 := m.AddLink(simnet.LinkCfg{Name: "L0", Latency: time.Millisecond + 11*time.Nanosecond, FIFO: true}, "v", "a0", 1)
		_ = m.Up(l0)
		time.Sleep(2 * time.Second)
		if len(p.Backends) == 0 || len(p.SlotBk) == 0 {
			return
		}
		cost := func(b c11Backend, id string) float64 {
			if kk, ok := b.Override[id]; ok {
				return simnet.DyadicCost(1, kk)
			}
			return simnet.DyadicCost(1, b.CostK)
		}
		slots := make([]*c11Sess, len(p.SlotBk))
		seq := uint64(0)
		idn := 0
		nextID := func() string { idn++; return fmt.Sprintf("zc%06d", idn) }
		openSlot := func(i int) *c11Sess {
			bi := p.SlotBk[i] % len(p.Backends)
			b := p.Backends[bi]
			s := slots[i]
			// sessions never start at the same instant modulo the 1 s repeat of the initial message: two sessions whose
			// timers fire together draw their sequence numbers in an order the simulator does not decide
			time.Sleep(time.Duration(37*(i+1))*time.Microsecond + time.Duration(w.Now()%time.Millisecond)/7)
			if s == nil {
				mods := []func(*netceptor.BackendInfo){}
				if b.HasAllow {
					al := b.Allow
					if al == nil {
						al = []string{}
					}
					mods = append(mods, netceptor.BackendAllowedPeers(al))
				}
				if len(b.Override) > 0 {
					nc := map[string]float64{}
					for id, kk := range b.Override {
						nc[id] = simnet.DyadicCost(1, kk)
					}
					mods = append(mods, netceptor.BackendNodeCost(nc))
				}
				name := fmt.Sprintf("S%d", i)
				l, sess, err := m.AttachScripted(v, simnet.LinkCfg{Name: name, Latency: time.Millisecond + time.Duration(100*(i+1))*time.Nanosecond, FIFO: true},
					fmt.Sprintf("zs%d", i), simnet.DyadicCost(1, b.CostK), mods...)
				if err != nil {
					res.Violate("harness", "attach: %v", err)
					return nil
				}
				s = &c11Sess{link: l, sess: sess, open: true, mark: w.WireLen()}
				slots[i] = s
				return s
			}
			// end the previous session of the slot (if any) and open a fresh one
			if s.open {
				_ = s.sess.Close()
				s.open, s.est = false, false
				time.Sleep(200 * time.Millisecond)
			}
			ns, err := m.ReconnectScripted(s.link)
			if err != nil {
				return nil
			}
			*s = c11Sess{link: s.link, sess: ns, open: true, mark: w.WireLen()}
			return s
		}
		connected := func() map[string]bool {
			out := map[string]bool{}
			for _, s := range slots {
				if s != nil && s.open && s.est {
					out[s.id] = true
				}
			}
			return out
		}
		admissible := func(i int, id string) bool {
			b := p.Backends[p.SlotBk[i]%len(p.Backends)]
			if id == "" || id == "v" || id == "a0" {
				return false
			}
			if b.HasAllow {
				ok := false
				for _, a := range b.Allow {
					if a == id {
						ok = true
					}
				}
				if !ok {
					return false
				}
			}
			return !connected()[id]
		}
		hello := func(i int, st c11Step) {
			s := openSlot(i)
			if s == nil {
				return
			}
			seq++
			origin := st.ID
			if st.Origin != "" {
				origin = st.Origin
			}
			conns := map[string]float64{}
			b := p.Backends[p.SlotBk[i]%len(p.Backends)]
			if st.ListV {
				conns["v"] = cost(b, st.ID)
			}
			_ = s.sess.Send(routeMsg(&simnet.RoutingUpdate{NodeID: origin, UpdateID: nextID(), UpdateEpoch: 11 << 24, UpdateSequence: seq, Connections: conns, ForwardingNode: st.ID}))
			s.id = st.ID
			if admissible(i, st.ID) {
				s.est, s.cost = true, cost(b, st.ID)
			} else {
				s.open = false // rejected: the victim ends the session
			}
		}
		kinds := map[string]bool{}
		verify := func(step int, st c11Step) {
			time.Sleep(time.Second)
			simnet.Quiesce()
			want := connected()
			want["a0"] = true
			stt := v.Net().Status()
			got := map[string]bool{}
			dupc := map[string]int{}
			for _, c := range stt.Connections {
				got[c.NodeID] = true
				dupc[c.NodeID]++
			}
			if fmt.Sprint(sortedSet(got)) != fmt.Sprint(sortedSet(want)) {
				sig := "c11:connections-mismatch"
				for id := range got {
					if !want[id] {
						if id == "" {
							sig = "c11:empty-id-admitted"
						} else {
							sig = "c11:inadmissible-connected"
						}
					}
				}
				res.Violate(sig, "after step %d (%+v): victim lists connections %q, admissible and open are %q", step, st, sortedSet(got), sortedSet(want))
				return
			}
			for i, s := range slots {
				if s == nil {
					continue
				}
				if s.est && s.open {
					for _, c := range stt.Connections {
						if c.NodeID == s.id && c.Cost != s.cost {
							res.Violate("c11:cost", "connection %q has cost %v, configured %v", s.id, c.Cost, s.cost)
						}
					}
					if !s.sess.Open() {
						res.Violate("c11:admissible-closed", "slot %d: admissible session of %q was closed by the victim", i, s.id)
					}
					continue
				}
				if !s.open && s.id != "" || (!s.open && !s.est) {
					// ended or rejected: nothing may be left behind
					if !want[s.id] {
						if _, ok := stt.RoutingTable[s.id]; ok && s.id != "v" && s.id != "a0" {
							res.Violate("c11:route-left-behind", "slot %d: %q is not connected but the victim still routes to it via %s", i, s.id, stt.RoutingTable[s.id])
						}
						if _, ok := stt.KnownConnectionCosts["v"][s.id]; ok && s.id != "a0" {
							res.Violate("c11:adjacency-left-behind", "slot %d: %q is not connected but still in the victim's own adjacency", i, s.id)
						}
					}
				}
			}
		}
		for si, st := range p.Steps {
			if st.Slot >= len(slots) {
				continue
			}
			kinds[st.Kind] = true
			switch st.Kind {
			case "hello":
				hello(st.Slot, st)
				if s := slots[st.Slot]; st.Bye && s != nil {
					// connect, announce, disconnect: whatever the victim had got to, nothing of the session may stay behind
					_ = s.sess.Close()
					s.open, s.est = false, false
					res.Add("probe_hello_then_gone", 1)
				}
				// a rejected session must have been told so and closed
				time.Sleep(500 * time.Millisecond)
				s := slots[st.Slot]
				if s != nil && !s.open && !s.est {
					rej := false
					for _, r := range w.Wire()[s.mark:] {
						if r.From == "v" && r.Link == s.link.Name && r.Type == simnet.MsgReject {
							rej = true
						}
					}
					if rej {
						// best effort in the code (the writer goroutine races with the session close), so only counted
						res.Add("probe_reject_message_seen", 1)
					}
					if s.sess.Open() {
						res.Violate("c11:rejected-session-open", "hello %+v should be rejected but the session is still open", st)
					}
					res.Add("probe_rejected_hello", 1)
				} else {
					res.Add("probe_admitted_hello", 1)
				}
			case "pair":
				if st.Slot2 >= len(slots) || st.Slot2 == st.Slot || st.ID == "" {
					continue
				}
				// two sessions announce the same ID at (nearly) the same instant
				a, b := openSlot(st.Slot), openSlot(st.Slot2)
				if a == nil || b == nil {
					continue
				}
				okA, okB := admissible(st.Slot, st.ID), admissible(st.Slot2, st.ID)
				if st.Blocked {
					// the first peer has stopped reading: the victim's writer is stuck in Send and, a second later, the
					// goroutine repeating the initial message is parked on the write channel, so the hand-off that ends
					// the handshake of this session cannot complete while the second session shows up
					a.sess.BlockPeerSend(true)
					time.Sleep(2600 * time.Millisecond)
					res.Add("probe_blocked_handshake", 1)
				}
				seq++
				_ = a.sess.Send(routeMsg(&simnet.RoutingUpdate{NodeID: st.ID, UpdateID: nextID(), UpdateEpoch: 11 << 24, UpdateSequence: seq, Connections: map[string]float64{}, ForwardingNode: st.ID}))
				time.Sleep(time.Duration(st.DelayUs) * time.Microsecond)
				seq++
				_ = b.sess.Send(routeMsg(&simnet.RoutingUpdate{NodeID: st.ID, UpdateID: nextID(), UpdateEpoch: 11 << 24, UpdateSequence: seq, Connections: map[string]float64{}, ForwardingNode: st.ID}))
				time.Sleep(time.Second)
				if st.Blocked {
					a.sess.BlockPeerSend(false)
					time.Sleep(time.Second)
				}
				simnet.Quiesce()
				a.id, b.id = st.ID, st.ID
				// exactly one may win when both are admissible; the model follows the victim's choice
				aOpen, bOpen := a.sess.Open(), b.sess.Open()
				switch {
				case okA && okB:
					if aOpen == bOpen {
						res.Violate("c11:same-id-race", "two sessions announcing %q at once: open=%v/%v (exactly one must stay)", st.ID, aOpen, bOpen)
					}
					a.open, a.est, b.open, b.est = aOpen, aOpen, bOpen, bOpen
					res.Add("probe_same_id_race", 1)
				default:
					a.open, a.est, b.open, b.est = okA, okA, okB, okB
				}
				bk := p.Backends[p.SlotBk[st.Slot]%len(p.Backends)]
				a.cost = cost(bk, st.ID)
				bk = p.Backends[p.SlotBk[st.Slot2]%len(p.Backends)]
				b.cost = cost(bk, st.ID)
			case "update":
				s := slots[st.Slot]
				if s == nil || !s.open || !s.est {
					continue
				}
				fwd := st.ID
				if fwd == "=" {
					fwd = s.id
				}
				origin := fwd
				if st.Origin != "" {
					origin = st.Origin
				}
				if origin == "v" || origin == "a0" {
					origin = "zother" // forging real nodes' updates is C06/C07 territory
				}
				c := s.cost
				if st.CostK >= 0 {
					c = simnet.DyadicCost(1, st.CostK)
				}
				conns := map[string]float64{}
				if st.ListV {
					conns["v"] = c
				}
				seq++
				_ = s.sess.Send(routeMsg(&simnet.RoutingUpdate{NodeID: origin, UpdateID: nextID(), UpdateEpoch: 11 << 24, UpdateSequence: seq, Connections: conns, ForwardingNode: fwd}))
				switch {
				case fwd != s.id:
					s.open, s.est = false, false
					res.Add("probe_identity_change", 1)
				case origin == s.id && !st.ListV:
					if s.remEst {
						s.open, s.est = false, false
						res.Add("probe_stopped_listing", 1)
					}
				case origin == s.id && st.ListV:
					s.remEst = true
					if c != s.cost {
						s.open, s.est = false, false
						res.Add("probe_cost_mismatch", 1)
					}
				}
			case "close":
				s := slots[st.Slot]
				if s == nil || !s.open {
					continue
				}
				_ = s.sess.Close()
				s.open, s.est = false, false
				res.Add("probe_session_end", 1)
			}
			verify(si, st)
			if len(res.Violations) > 0 {
				break
			}
		}
		// ---- a session that has ended while its receive loop is still busy: peer qa's session is parked forwarding a
		// datagram to peer qb, who has stopped reading; qa's transport goes away and qa connects again.  Until the old
		// session has been forgotten the new one is a duplicate; afterwards exactly one session of qa may exist.
		if p.Parked && len(res.Violations) == 0 {
			c := simnet.DyadicCost(1, 5)
			mk := func(name, script string) (*simnet.Link, *simnet.Session) {
				l, sess, err := m.AttachScripted(v, simnet.LinkCfg{Name: name, Latency: time.Millisecond + time.Duration(len(name)*131)*time.Nanosecond, FIFO: true}, script, c)
				if err != nil {
					return nil, nil
				}
				return l, sess
			}
			helloAs := func(sess *simnet.Session, id string) {
				seq++
				_ = sess.Send(routeMsg(&simnet.RoutingUpdate{NodeID: id, UpdateID: nextID(), UpdateEpoch: 12 << 24, UpdateSequence: seq, Connections: map[string]float64{"v": c}, ForwardingNode: id}))
			}
			la, sa := mk("PA", "zqa")
			_, sb := mk("PB", "zqb")
			if la != nil && sb != nil {
				time.Sleep(50 * time.Millisecond)
				helloAs(sa, "qa")
				helloAs(sb, "qb")
				time.Sleep(time.Second)
				sb.BlockPeerSend(true) // qb stops reading
				time.Sleep(10 * time.Millisecond)
				for i := 0; i < 2; i++ { // the first fills the writer, the second parks qa's receive loop on the hand-over (its reader stays free to see the transport end)
					_ = sa.Send(simnet.DataPacket(20, "qa", "qb", "src", "dst", []byte{byte(i)}))
					time.Sleep(time.Millisecond)
				}
				time.Sleep(100 * time.Millisecond)
				_ = sa.Close() // qa's transport ends
				time.Sleep(200 * time.Millisecond)
				sa2, err := m.ReconnectScripted(la)
				if err == nil {
					time.Sleep(50 * time.Millisecond)
					helloAs(sa2, "qa")
					time.Sleep(time.Second)
					sb.BlockPeerSend(false) // qb drains; the old session of qa can finish
					time.Sleep(2 * time.Second)
					_, sa3 := mk("PC", "zqc")
					if sa3 != nil {
						time.Sleep(50 * time.Millisecond)
						helloAs(sa3, "qa")
						time.Sleep(2 * time.Second)
						simnet.Quiesce()
						open := 0
						for _, x := range []*simnet.Session{sa2, sa3} {
							if x.Open() {
								open++
							}
						}
						n := 0
						for _, cn := range v.Net().Status().Connections {
							if cn.NodeID == "qa" {
								n++
							}
						}
						res.Add("probe_parked_session_reconnect", 1)
						if open > 1 {
							res.Violate("c11:same-id-twice", "after a session of qa ended while its receive loop was parked, %d sessions announcing qa are open at once", open)
						} else if open == 1 && n != 1 {
							res.Violate("c11:connections-mismatch", "one session of qa is open and was not rejected, but the victim lists %d connections to qa", n)
						}
					}
				}
			}
		}
		dumpWire(w, "")
		dumpEvents(w, "")
		res.SimSeconds = w.Now().Seconds()
		res.LogHash, res.LogLines = w.CanonicalLogHash()
		res.Merge(w.Stats())
		allow := 0
		for _, b := range p.Backends {
			if b.HasAllow {
				allow++
			}
		}
		res.Class = fmt.Sprintf("bk=%d allow=%d slots=%d kinds=%s", len(p.Backends), allow, len(p.SlotBk), strings.Join(simnet.SortedKeys(kinds), "+"))
		for _, n := range m.Nodes {
			n.Stop()
		}
		time.Sleep(3 * time.Second)
	})
}

func sortedSet(m map[string]bool) []string {
	out := []string{}
	for k, v := range m {
		if v {
			out = append(out, k)
		}
	}
	sort.Strings(out)
	return out
}

// runC11Dup: two running nodes claim one ID; the one started later shuts down, the earlier keeps working.
func runC11Dup(t *testing.T, p *C11Plan, res *simnet.Result) {
	simnet.Bubble(t, func() {
		w := simnet.NewWorld(res.Seed)
		m := simnet.NewMesh(w)
		k := simnet.DefaultKnobs()
		k.ServiceAd = 0
		k.RouteUpdate = time.Duration(2+simnet.H(res.Seed, "rut")%8) * time.Second
		k.MaxIdle = 2*k.RouteUpdate + 2*time.Second
		n := p.DupN
		ids := make([]string, n)
		for i := range ids {
			ids[i] = fmt.Sprintf("n%d", i)
			m.AddNode(ids[i], k)
		}
		for i := 1; i < n; i++ {
			name := fmt.Sprintf("L%d", i)
			l := m.AddLink(simnet.LinkCfg{Name: name, Latency: time.Duration(1+simnet.H(res.Seed, "lat", name)%20)*time.Millisecond + time.Duration(i)*time.Microsecond,
				FIFO: true, Framed: i%2 == 0}, ids[i-1], ids[i], 1)
			_ = m.Up(l)
		}
		time.Sleep(3 * time.Second)
		// the two claimants hang on different nodes of the chain
		e := m.AddNode("dup", k)
		le := m.AddLink(simnet.LinkCfg{Name: "LE", Latency: 3*time.Millisecond + 7*time.Nanosecond, FIFO: true}, "dup", ids[p.DupAt[0]%n], 1)
		_ = m.Up(le)
		time.Sleep(time.Duration(p.DupGapMs) * time.Millisecond)
		// the later claimant: a second Netceptor with the same ID
		lateNode := &simnet.Node{W: w, ID: "dup", Knobs: k}
		lateNode.Start()
		backend := simnet.NewBackend()
		_ = lateNode.Net().AddBackend(backend, netceptor.BackendConnectionCost(1))
		ll := w.NewLink(simnet.LinkCfg{Name: "LL", Latency: 2*time.Millisecond + 13*time.Nanosecond, FIFO: true}, "dup'", ids[p.DupAt[1]%n])
		sa, sb := ll.ConnectDatagram()
		backend.Push(sa)
		peer := m.Nodes[ids[p.DupAt[1]%n]]
		pb := simnet.NewBackend()
		_ = peer.Net().AddBackend(pb, netceptor.BackendConnectionCost(1))
		pb.Push(sb)
		bound := 4*k.RouteUpdate + 10*time.Second
		select {
		case <-lateNode.Net().NetceptorDone():
			res.Add("probe_late_duplicate_shut_down", 1)
		case <-time.After(bound):
			res.Violate("c11:duplicate-not-shut-down", "the node started %d ms later with the same ID is still running %v after it joined (attach points %v of %d)", p.DupGapMs, bound, p.DupAt, n)
		}
		select {
		case <-e.Net().NetceptorDone():
			res.Violate("c11:earlier-node-shut-down", "the earlier node with the contested ID shut itself down")
		default:
		}
		time.Sleep(k.MaxIdle + 5*time.Second + 3*k.RouteUpdate)
		if len(res.Violations) == 0 {
			// the earlier one keeps working: reachable from the far end of the mesh, and it reaches others
			far := ids[(p.DupAt[0]+n/2+1)%n]
			ctx, cancel := context.WithTimeout(context.Background(), 12*time.Second)
			_, from, err := m.Nodes[far].Net().Ping(ctx, "dup", 20)
			cancel()
			if err != nil || from != "dup" {
				res.Violate("c11:earlier-node-unreachable", "after the duplicate left, ping %s->dup: from=%q err=%v; table=%v", far, from, err, m.Nodes[far].Net().Status().RoutingTable)
			}
			ctx, cancel = context.WithTimeout(context.Background(), 12*time.Second)
			_, from, err = e.Net().Ping(ctx, far, 20)
			cancel()
			if err != nil || from != far {
				res.Violate("c11:earlier-node-cannot-send", "after the duplicate left, ping dup->%s: from=%q err=%v", far, from, err)
			}
		}
		res.SimSeconds = w.Now().Seconds()
		res.LogHash, res.LogLines = w.CanonicalLogHash()
		res.Merge(w.Stats())
		res.Class = fmt.Sprintf("dup n=%d at=%v gap=%ds", n, p.DupAt, p.DupGapMs/1000)
		lateNode.Stop()
		for _, nn := range m.Nodes {
			nn.Stop()
		}
		time.Sleep(3 * time.Second)
	})
}

func TestC11(t *testing.T) {
	quiet()
	simnet.RunCheck(t, simnet.Check{ID: "C11", Gen: genC11, NewPlan: func() any { return &C11Plan{} }, Run: runC11})
}
