package checks

import (
	"fmt"
	"sort"
	"strings"
	"testing"
	"time"

	"github.com/ansible/receptor/pkg/netceptor"
	"verif/sim/simnet"
)

// C01 — routing converges to least-cost, loop-free next hops after topology
// changes stop.

type c01Link struct {
	Name     string `json:"name"`
	A        string `json:"a"`
	B        string `json:"b"`
	CostK    int    `json:"cost_k"`    // cost = CostBase + CostK * 2^-20
	CostBase int    `json:"cost_base"` // 1..4
	Framed   bool   `json:"framed"`
	LatUs    int    `json:"lat_us"`
	Override bool   `json:"override"` // side A configures the cost through a per-node override
	Up       bool   `json:"up"`       // initially up
}

type c01Event struct {
	AtMs int    `json:"at_ms"`
	Kind string `json:"kind"` // cut heal silent silent1 stop start delay
	Link string `json:"link,omitempty"`
	Node string `json:"node,omitempty"`
	Arg  int    `json:"arg,omitempty"`
}

type C01Plan struct {
	RouteUpdateS int        `json:"route_update_s"`
	MaxIdleS     int        `json:"max_idle_s"`
	Nodes        []string   `json:"nodes"`
	Links        []c01Link  `json:"links"`
	Events       []c01Event `json:"events"`
	Tie          bool       `json:"tie"` // equal-cost batch
	// Stale: a fixed small topology in which an update of a node's previous incarnation is held on a stalled path
	// and let through ReleaseMs after the restarted node's new link has come up
	Stale     bool     `json:"stale"`
	ReleaseMs int      `json:"release_ms"`
	Shrink    []string `json:"_shrink"`
}

func genC01(seed uint64, tier string) any {
	r := simnet.NewRng(seed, "c01")
	p := &C01Plan{Shrink: []string{"events", "links"}}
	p.RouteUpdateS = r.Range(2, 10)
	p.MaxIdleS = 2*p.RouteUpdateS + 1 + r.Intn(3)
	if r.Bool(0.12) {
		// a--c--n chain plus a stub d on a; the link a--n exists but is down until after a's restart; c--n stalls
		p.Stale, p.ReleaseMs = true, simnet.Pick(r, []int{0, 1, 5, 20, 60, 110, 200, 400})
		p.RouteUpdateS, p.MaxIdleS = 30, 90
		p.Nodes = []string{"a", "c", "n", "d"}
		mk := func(name, x, y string, k int, up bool) c01Link {
			return c01Link{Name: name, A: x, B: y, CostBase: 1, CostK: k, LatUs: r.Range(500, 20000), Up: up}
		}
		p.Links = []c01Link{mk("L1", "a", "c", 11, true), mk("L2", "c", "n", 23, true), mk("L3", "a", "n", 37, false), mk("L4", "a", "d", 51, true)}
		down := r.Range(1100, 2500)
		p.Events = []c01Event{
			{AtMs: 8000, Kind: "hold", Link: "L2"},
			{AtMs: 8030, Kind: "cut", Link: "L4"}, // a floods an update (its last before the restart); it gets as far as c
			{AtMs: 8300, Kind: "restart", Node: "a", Arg: down},
			{AtMs: 8300 + down + 4000, Kind: "heal-release", Link: "L3", Arg: p.ReleaseMs},
		}
		p.Shrink = nil
		return p
	}
	maxN, maxEv := 6, 6
	if tier == "thorough" {
		maxN, maxEv = 8, 20
	}
	n := r.Range(2, maxN)
	for i := 0; i < n; i++ {
		p.Nodes = append(p.Nodes, fmt.Sprintf("n%d", i))
	}
	p.Tie = r.Bool(0.1)
	// random graph: a spanning tree (possibly not initially up everywhere) plus extras
	k := 0
	addLink := func(a, b int) {
		k++
		l := c01Link{Name: fmt.Sprintf("L%d", k), A: p.Nodes[a], B: p.Nodes[b], CostBase: r.Range(1, 3),
			CostK: k*37 + r.Intn(30), Framed: r.Bool(0.4), LatUs: r.Range(500, 40000), Override: r.Bool(0.25), Up: r.Bool(0.85)}
		if p.Tie {
			l.CostBase, l.CostK = 1, 0
		}
		p.Links = append(p.Links, l)
	}
	connected := r.Bool(0.8)
	for i := 1; i < n; i++ {
		if connected || r.Bool(0.7) {
			addLink(r.Intn(i), i)
		}
	}
	extra := r.Intn(n + 1)
	for e := 0; e < extra; e++ {
		a, b := r.Intn(n), r.Intn(n)
		if a == b {
			continue
		}
		dup := false
		for _, l := range p.Links {
			if (l.A == p.Nodes[a] && l.B == p.Nodes[b]) || (l.A == p.Nodes[b] && l.B == p.Nodes[a]) {
				dup = true
			}
		}
		if !dup {
			addLink(a, b)
		}
	}
	// fault events, after a warm-up, several possibly in flight at once
	nev := r.Intn(maxEv + 1)
	at := 3000 + r.Intn(20000)
	if r.Bool(0.3) {
		at += r.Range(60000, 400000) // a mesh that has been up for a while: high sequence numbers
	}
	stopped := map[string]int{}
	for e := 0; e < nev && len(p.Links) > 0; e++ {
		at += r.Intn(15000)
		if r.Bool(0.3) {
			at += r.Intn(200) // bursts
		}
		ev := c01Event{AtMs: at}
		switch x := r.Intn(100); {
		case x < 25:
			ev.Kind, ev.Link = "cut", simnet.Pick(r, p.Links).Name
		case x < 50:
			ev.Kind, ev.Link = "heal", simnet.Pick(r, p.Links).Name
		case x < 62:
			ev.Kind, ev.Link = "silent", simnet.Pick(r, p.Links).Name
		case x < 72:
			ev.Kind, ev.Link, ev.Arg = "silent1", simnet.Pick(r, p.Links).Name, r.Intn(2)
		case x < 76:
			ev.Kind, ev.Node = "stop", simnet.Pick(r, p.Nodes)
			stopped[ev.Node] = at
		case x < 86:
			// stop and come back 1.5-6 s later with a new epoch (and a sequence number starting over)
			ev.Kind, ev.Node, ev.Arg = "restart", simnet.Pick(r, p.Nodes), r.Range(1500, 6000)
		case x < 92:
			ev.Kind, ev.Node = "start", simnet.Pick(r, p.Nodes)
			if t0, ok := stopped[ev.Node]; ok && at-t0 < 1500 {
				ev.AtMs = t0 + 1500 + r.Intn(3000) // new epoch needs >= 1 s
				at = ev.AtMs
			}
		default:
			ev.Kind, ev.Link, ev.Arg = "delay", simnet.Pick(r, p.Links).Name, r.Range(1, 400)
		}
		p.Events = append(p.Events, ev)
	}
	// a restart while an update of the old incarnation is still travelling: a link somewhere else holds its traffic
	// for seconds, one of the node's links changes (so it floods an update), then the node restarts
	if len(p.Nodes) >= 3 && r.Bool(0.25) {
		a := simnet.Pick(r, p.Nodes)
		var adj, far []string
		for _, l := range p.Links {
			if l.A == a || l.B == a {
				adj = append(adj, l.Name)
			} else {
				far = append(far, l.Name)
			}
		}
		if len(adj) > 0 && len(far) > 0 {
			at += 5000
			hold := simnet.Pick(r, far)
			down := r.Range(1100, 2500)
			p.Events = append(p.Events,
				c01Event{AtMs: at, Kind: "delay", Link: hold, Arg: r.Range(2500, 9000)},
				c01Event{AtMs: at + 30, Kind: "cut", Link: simnet.Pick(r, adj)},
				c01Event{AtMs: at + 200, Kind: "restart", Node: a, Arg: down},
				c01Event{AtMs: at + 200 + down + 15000, Kind: "delay", Link: hold, Arg: 0})
		}
	}
	return p
}

func (l c01Link) cost() float64 { return simnet.DyadicCost(l.CostBase, l.CostK) }

func runC01(t *testing.T, planAny any, res *simnet.Result) {
	p := planAny.(*C01Plan)
	simnet.Bubble(t, func() {
		w := simnet.NewWorld(res.Seed)
		m := simnet.NewMesh(w)
		k := simnet.DefaultKnobs()
		k.RouteUpdate = time.Duration(p.RouteUpdateS) * time.Second
		k.MaxIdle = time.Duration(p.MaxIdleS) * time.Second
		k.ServiceAd = 0
		for _, id := range p.Nodes {
			m.AddNode(id, k)
		}
		links := map[string]*simnet.Link{}
		linkCfg := map[string]c01Link{}
		for _, pl := range p.Links {
			if m.Nodes[pl.A] == nil || m.Nodes[pl.B] == nil || pl.A == pl.B {
				continue
			}
			cfg := simnet.LinkCfg{Name: pl.Name, Latency: time.Duration(pl.LatUs)*time.Microsecond + time.Duration(simnet.H(res.Seed, "lat", pl.Name)%977)*time.Nanosecond,
				FIFO: true, Framed: pl.Framed}
			l := m.AddLink(cfg, pl.A, pl.B, pl.cost())
			if pl.Override {
				// side A: wrong default cost, right per-node override
				m.SetEndMods(l, 0, pl.cost()+5, netceptor.BackendNodeCost(map[string]float64{pl.B: pl.cost()}))
				// fix the ground-truth cost (SetEndMods stored the default)
				res.Add("probe_cost_override", 1)
			}
			links[pl.Name] = l
			linkCfg[pl.Name] = pl
			if pl.Up {
				// stagger start-up so the order is part of the plan
				w.SleepUntil(time.Duration(simnet.H(res.Seed, "upat", pl.Name)%2000) * time.Millisecond)
				if err := m.Up(l); err != nil {
					res.Violate("harness", "up %s: %v", pl.Name, err)
				}
			}
		}
		evs := append([]c01Event(nil), p.Events...)
		sort.SliceStable(evs, func(i, j int) bool { return evs[i].AtMs < evs[j].AtMs })
		kinds := map[string]bool{}
		for _, ev := range evs {
			w.SleepUntil(time.Duration(ev.AtMs) * time.Millisecond)
			l := links[ev.Link]
			switch ev.Kind {
			case "cut":
				if l != nil && l.Up() {
					l.Cut()
					kinds["cut"] = true
				}
			case "heal":
				if l != nil && !l.Up() && m.Nodes[l.Ends[0]].Up() && m.Nodes[l.Ends[1]].Up() {
					l.SetSilent(false, false)
					if err := m.Up(l); err == nil {
						w.Count("fault_heal", 1)
						kinds["heal"] = true
					}
				}
			case "silent":
				if l != nil && l.Up() {
					l.SetSilent(true, true)
					kinds["silent"] = true
				}
			case "silent1":
				if l != nil && l.Up() {
					l.SetSilent(ev.Arg == 0, ev.Arg == 1)
					kinds["silent1"] = true
				}
			case "delay":
				if l != nil {
					l.SetExtraDelay(time.Duration(ev.Arg) * time.Millisecond)
					kinds["delay"] = true
				}
			case "hold":
				if l != nil {
					l.Hold()
					kinds["hold"] = true
				}
			case "heal-release":
				// the link comes up; Arg ms later whatever the stalled path (L2) was holding is let through
				if l != nil && !l.Up() && m.Nodes[l.Ends[0]].Up() && m.Nodes[l.Ends[1]].Up() {
					_ = m.Up(l)
					kinds["heal"] = true
				}
				time.Sleep(time.Duration(ev.Arg) * time.Millisecond)
				if h := links["L2"]; h != nil {
					h.Release()
				}
			case "stop":
				if n := m.Nodes[ev.Node]; n != nil && n.Up() {
					n.Stop()
					kinds["stop"] = true
				}
			case "start", "restart":
				if ev.Kind == "restart" {
					if n := m.Nodes[ev.Node]; n != nil && n.Up() {
						n.Stop()
						time.Sleep(time.Duration(ev.Arg) * time.Millisecond)
					} else {
						continue
					}
				}
				if n := m.Nodes[ev.Node]; n != nil && !n.Up() {
					n.Start()
					w.Count("fault_node_restart", 1)
					kinds["restart"] = true
					// a restarted node's dialers reconnect: bring its links back (those not administratively cut stay cut)
					for _, name := range simnet.SortedKeys(links) {
						ll := links[name]
						if (ll.Ends[0] == ev.Node || ll.Ends[1] == ev.Node) && m.Nodes[ll.Ends[0]].Up() && m.Nodes[ll.Ends[1]].Up() &&
							simnet.H(res.Seed, "relink", name, ev.AtMs)%4 != 0 {
							time.Sleep(time.Duration(simnet.H(res.Seed, "relinkat", name, ev.AtMs)%3000) * time.Millisecond)
							ll.SetSilent(false, false)
							_ = m.Up(ll)
						}
					}
				}
			}
		}
		// Settle: silent links are only noticed by the idle timer (limit + 5 s poll),
		// then the change floods (on-demand flood within 100 ms, periodic every RUT).
		settle := k.MaxIdle + 5*time.Second + 3*k.RouteUpdate + 12*time.Second
		time.Sleep(settle)
		simnet.Quiesce()
		checkC01Tables(m, linkCfg, res)
		res.SimSeconds = w.Now().Seconds()
		res.LogHash, res.LogLines = w.CanonicalLogHash()
		res.Merge(w.Stats())
		g := m.TrueGraph()
		edges := 0
		for _, nb := range g {
			edges += len(nb)
		}
		ks := simnet.SortedKeys(kinds)
		if len(g) >= 2 {
			res.Class = fmt.Sprintf("n=%d e=%d faults=%s tie=%v", len(g), edges/2, strings.Join(ks, "+"), p.Tie)
		}
		for _, n := range m.Nodes {
			n.Stop()
		}
		time.Sleep(3 * time.Second)
	})
}

func checkC01Tables(m *simnet.Mesh, linkCfg map[string]c01Link, res *simnet.Result) {
	g := m.TrueGraph()
	// ground-truth costs come from the plan, not from what was configured into the node
	for name, l := range m.Links {
		pl := linkCfg[name]
		a, b := l.Ends[0], l.Ends[1]
		if _, ok := g[a][b]; ok {
			g[a][b], g[b][a] = pl.cost(), pl.cost()
		}
	}
	dist := g.AllPairs()
	for _, x := range simnet.SortedKeys(g) {
		st := m.Nodes[x].Net().Status()
		conns := map[string]float64{}
		for _, c := range st.Connections {
			conns[c.NodeID] = c.Cost
		}
		// connections must be exactly the true neighbours
		for nb := range g[x] {
			if _, ok := conns[nb]; !ok {
				res.Violate("c01:missing-connection", "node %s has no connection to true neighbour %s (conns=%v)", x, nb, conns)
			}
		}
		for nb := range conns {
			if _, ok := g[x][nb]; !ok {
				res.Violate("c01:stale-connection", "node %s lists connection %s that does not exist (truth=%v)", x, nb, g[x])
			}
		}
		for d, dd := range dist[x] {
			if d == x {
				continue
			}
			nh, ok := st.RoutingTable[d]
			if !ok {
				res.Violate("c01:missing-route", "node %s has no route to reachable %s (dist %v) table=%v", x, d, dd, st.RoutingTable)
				continue
			}
			c, isNb := g[x][nh]
			if !isNb {
				res.Violate("c01:nexthop-not-neighbour", "node %s routes %s via %s which is not a connected neighbour", x, d, nh)
				continue
			}
			hd, ok := dist[nh][d]
			if !ok || c+hd != dd {
				res.Violate("c01:not-least-cost", "node %s routes %s via %s: %v+%v != least %v", x, d, nh, c, hd, dd)
			}
			pc, err := m.Nodes[x].Net().PathCost(d)
			if err != nil || pc != dd {
				res.Violate("c01:path-cost", "node %s PathCost(%s)=%v err=%v, least=%v", x, d, pc, err, dd)
			}
			if path := m.RoutePath(x, d); path == nil {
				res.Violate("c01:loop", "following next hops from %s to %s does not arrive", x, d)
			}
			res.Add("routes_checked", 1)
		}
		for d := range st.RoutingTable {
			if _, ok := dist[x][d]; !ok {
				res.Violate("c01:unreachable-in-table", "node %s keeps route to unreachable %s via %s", x, d, st.RoutingTable[d])
			}
		}
	}
}

func TestC01(t *testing.T) {
	quiet()
	simnet.RunCheck(t, simnet.Check{ID: "C01", Gen: genC01, NewPlan: func() any { return &C01Plan{} }, Run: runC01})
}
