//go:build verif

package checks

import (
	"bytes"
	"context"
	"fmt"
	"io"
	"net"
	"os"
	"sort"
	"strings"
	"sync"
	"testing"
	"time"

	"github.com/ansible/receptor/pkg/controlsvc"
	"github.com/ansible/receptor/pkg/netceptor"
	"github.com/ansible/receptor/pkg/utils"
	"verif/sim/simnet"
)

// C03 — mesh streams are reliable ordered byte pipes despite loss and re-routing.

type c03Link struct {
	A     int     `json:"a"`
	B     int     `json:"b"`
	LatUs int     `json:"lat_us"`
	JitUs int     `json:"jit_us"`
	Drop  float64 `json:"drop"`
	Dup   float64 `json:"dup"`
	CostK int     `json:"cost_k"`
}

type C03Plan struct {
	N       int       `json:"n"`
	Links   []c03Link `json:"links"`
	Via     string    `json:"via"` // direct | connect | bridge
	SizeAB  int       `json:"size_ab"`
	SizeBA  int       `json:"size_ba"`
	ChunkAB int       `json:"chunk_ab"`
	ChunkBA int       `json:"chunk_ba"`
	CutAtMs int       `json:"cut_at_ms"` // cut the first link of the primary path (0: never)
	// other dials from the same node to the same service while the stream is in use, each given up after
	// AbandonUs (before or after its handshake completes)
	AbandonAtMs []int `json:"abandon_at_ms"`
	AbandonUs   int   `json:"abandon_us"`
	// a second stream from the same node to another service of the far node, whose listener goes away at this time
	// while the dialler keeps writing (0: none): every datagram it still sends is answered by a notice
	SinkCloseAtMs int      `json:"sink_close_at_ms"`
	Shrink        []string `json:"_shrink"`
}

func genC03(seed uint64, tier string) any {
	r := simnet.NewRng(seed, "c03")
	p := &C03Plan{}
	hops := r.Range(1, 4)
	p.N = hops + 1
	mk := func(a, b, ck int) c03Link {
		return c03Link{A: a, B: b, LatUs: r.Range(300, 15000), JitUs: simnet.Pick(r, []int{0, 500, 5000, 20000}),
			Drop: simnet.Pick(r, []float64{0, 0, 0.01, 0.03, 0.05}), Dup: simnet.Pick(r, []float64{0, 0.02, 0.1}), CostK: ck}
	}
	// primary chain 0..hops, cheap
	for i := 0; i < hops; i++ {
		p.Links = append(p.Links, mk(i, i+1, i+1))
	}
	// an alternative path between the ends through one extra node (more expensive)
	alt := r.Bool(0.6)
	if alt {
		x := p.N
		p.N++
		p.Links = append(p.Links, mk(0, x, 200), mk(x, hops, 300))
		if r.Bool(0.6) {
			p.CutAtMs = r.Range(50, 4000)
		}
	}
	p.Via = simnet.Pick(r, []string{"direct", "direct", "connect", "bridge"})
	if r.Bool(0.4) {
		for k := r.Range(1, 3); k > 0; k-- {
			p.AbandonAtMs = append(p.AbandonAtMs, r.Range(0, 3000))
		}
		p.AbandonUs = simnet.Pick(r, []int{100, 3000, 20000, 100000, 1000000})
	}
	if r.Bool(0.3) {
		p.SinkCloseAtMs = r.Range(100, 2500)
	}
	sizes := []int{0, 1, 100, 1199, 1200, 1201, 16384, 65536, 100000, 300000}
	if tier == "thorough" {
		sizes = append(sizes, 1000000, 2000000)
	}
	p.SizeAB, p.SizeBA = simnet.Pick(r, sizes), simnet.Pick(r, sizes)
	if r.Bool(0.3) {
		p.SizeAB = r.Intn(50000)
	}
	p.ChunkAB = simnet.Pick(r, []int{1, 7, 1000, 1200, 4096, 65536})
	p.ChunkBA = simnet.Pick(r, []int{1, 7, 1000, 1200, 4096, 65536})
	if p.SizeAB > 20000 && p.ChunkAB < 100 {
		p.ChunkAB = 1000
	}
	if p.SizeBA > 20000 && p.ChunkBA < 100 {
		p.ChunkBA = 1000
	}
	return p
}

type halfCloser interface {
	io.ReadWriteCloser
}

func runC03(t *testing.T, planAny any, res *simnet.Result) {
	p := planAny.(*C03Plan)
	simnet.Bubble(t, func() {
		w := simnet.NewWorld(res.Seed)
		w.MsgBudget = 3000000
		m := simnet.NewMesh(w)
		k := simnet.DefaultKnobs()
		k.ServiceAd = 0
		k.RouteUpdate = 5 * time.Second
		k.MaxIdle = 13 * time.Second
		ids := make([]string, p.N)
		for i := range ids {
			ids[i] = fmt.Sprintf("n%d", i)
			m.AddNode(ids[i], k)
		}
		var links []*simnet.Link
		for i, pl := range p.Links {
			if pl.A >= p.N || pl.B >= p.N {
				continue
			}
			name := fmt.Sprintf("L%d", i+1)
			cfg := simnet.LinkCfg{Name: name, Latency: time.Duration(pl.LatUs)*time.Microsecond + time.Duration(simnet.H(res.Seed, "lat", name)%977)*time.Nanosecond,
				Jitter: time.Duration(pl.JitUs) * time.Microsecond, Drop: pl.Drop, Dup: pl.Dup}
			l := m.AddLink(cfg, ids[pl.A], ids[pl.B], simnet.DyadicCost(1, pl.CostK))
			links = append(links, l)
			_ = m.Up(l)
		}
		// dialers redial: a link whose session ended (loss or reordering during the handshake, idle timeout) comes back
		stopRedial := make(chan struct{})
		cutLinks := map[*simnet.Link]bool{}
		var cutMu sync.Mutex
		var cutTime time.Duration
		go func() {
			for {
				select {
				case <-stopRedial:
					return
				case <-time.After(700 * time.Millisecond):
				}
				for _, l := range links {
					cutMu.Lock()
					isCut := cutLinks[l]
					cutMu.Unlock()
					if !isCut && !l.Up() {
						_ = m.Up(l)
						w.Count("fault_redial", 1)
					}
				}
			}
		}()
		src, dst := m.Nodes[ids[0]], m.Nodes[ids[0]]
		// the far end of the primary chain
		last := 0
		for _, pl := range p.Links {
			if pl.CostK < 100 && pl.B > last {
				last = pl.B
			}
		}
		dst = m.Nodes[ids[last]]
		// wait for a route
		deadline := w.Now() + 60*time.Second
		for w.Now() < deadline {
			if m.RoutePath(src.ID, dst.ID) != nil && m.RoutePath(dst.ID, src.ID) != nil {
				break
			}
			time.Sleep(500 * time.Millisecond)
		}
		if m.RoutePath(src.ID, dst.ID) == nil {
			res.Add("probe_no_route_formed", 1)
			close(stopRedial)
			return
		}
		li, err := dst.Net().Listen("strm", nil)
		if err != nil {
			res.Violate("harness", "listen: %v", err)
			return
		}
		dataAB := simnet.NewRng(res.Seed, "ab").Bytes(p.SizeAB)
		dataBA := simnet.NewRng(res.Seed, "ba").Bytes(p.SizeBA)
		type side struct {
			got   []byte
			err   error
			eof   bool
			endAt time.Duration // when this side's reading ended (error or end-of-stream)
		}
		var a, b side
		var wg sync.WaitGroup
		pump := func(c io.ReadWriteCloser, send []byte, chunk int, out *side, name string, afterEOF bool) {
			var iw sync.WaitGroup
			iw.Add(2)
			readDone := make(chan struct{})
			go func() {
				defer iw.Done()
				if afterEOF {
					// through a bridge to an ordinary socket only one half-close can be expressed (closing the socket
					// closes both directions), so the responder answers after it has seen the end of the request
					<-readDone
				}
				for off := 0; off < len(send); off += chunk {
					end := off + chunk
					if end > len(send) {
						end = len(send)
					}
					if _, err := c.Write(send[off:end]); err != nil {
						out.err = fmt.Errorf("%s write at %d: %w", name, off, err)
						if out.endAt == 0 {
							out.endAt = w.Now()
						}
						return
					}
				}
				// closing the writing side: the peer must see end-of-stream after all data
				_ = c.Close()
			}()
			go func() {
				defer iw.Done()
				defer close(readDone)
				buf := make([]byte, 32768)
				for {
					n, err := c.Read(buf)
					out.got = append(out.got, buf[:n]...)
					if err != nil {
						if err == io.EOF {
							out.eof = true
							out.endAt = w.Now()
						} else if out.err == nil {
							out.err = fmt.Errorf("%s read after %d bytes: %w", name, len(out.got), err)
							out.endAt = w.Now()
						}
						return
					}
				}
			}()
			iw.Wait()
		}
		// acceptor (B side)
		wg.Add(1)
		go func() {
			defer wg.Done()
			// the service accepts every connection; the stream under test announces itself with a marker byte, the
			// short-lived other dials (if they get that far) with another
			mainConn := make(chan *netceptor.Conn, 1)
			go func() {
				for {
					c, err := li.Accept()
					if err != nil {
						// a connection that failed before it became a stream (an abandoned dial) is reported here too;
						// a server keeps accepting until its listener is closed
						if strings.Contains(err.Error(), "listener closed") {
							return
						}
						w.Count("probe_accept_error", 1)
						time.Sleep(time.Millisecond)
						continue
					}
					if os.Getenv("VERIF_DEBUG") != "" {
						fmt.Fprintf(os.Stderr, "DBG %v accepted from %v\n", w.Now(), c.RemoteAddr())
					}
					go func(c *netceptor.Conn) {
						first := make([]byte, 1)
						_, err := io.ReadFull(c, first)
						if os.Getenv("VERIF_DEBUG") != "" {
							fmt.Fprintf(os.Stderr, "DBG %v first byte from %v: %q err=%v\n", w.Now(), c.RemoteAddr(), first, err)
						}
						if err != nil || first[0] != 'M' {
							_ = c.Close()
							return
						}
						select {
						case mainConn <- c:
						default:
							_ = c.Close()
						}
					}(c.(*netceptor.Conn))
				}
			}()
			select {
			case c := <-mainConn:
				pump(c, dataBA, p.ChunkBA, &b, "B", p.Via != "direct")
			case <-time.After(600 * time.Second):
				b.err = fmt.Errorf("accept: no connection arrived")
			}
		}()
		// establishing a connection over lossy links may fail (the property is about established streams): retry
		dialRetry := func() (*netceptor.Conn, error) {
			var lastErr error
			for try := 0; try < 8; try++ {
				ctx, cancel := context.WithTimeout(context.Background(), 40*time.Second)
				conn, err := src.Net().DialContext(ctx, dst.ID, "strm", nil)
				cancel()
				if err == nil {
					return conn, nil
				}
				lastErr = err
				w.Count("probe_dial_retry", 1)
				time.Sleep(2 * time.Second)
			}
			return nil, lastErr
		}
		// dialer (A side), possibly through a bridge
		wg.Add(1)
		go func() {
			defer wg.Done()
			var c io.ReadWriteCloser
			switch p.Via {
			case "connect":
				// a control-service client asks node A to connect it to B:strm; the session becomes the stream
				cs := controlsvc.New(true, src.Net())
				srv, cli := w.Pipe("ctl-server", "ctl-client", "unix")
				go cs.RunControlSession(srv)
				rd := make([]byte, 1)
				line := func() string {
					var sb strings.Builder
					for {
						if _, err := cli.Read(rd); err != nil {
							return sb.String()
						}
						if rd[0] == '\n' {
							return sb.String()
						}
						sb.WriteByte(rd[0])
					}
				}
				_ = line() // greeting
				ok := false
				for try := 0; try < 8 && !ok; try++ {
					// establishing the connection may fail under loss; the session stays usable, ask again
					_, _ = cli.Write([]byte(fmt.Sprintf("connect %s strm\n", dst.ID)))
					l := line()
					ok = strings.HasPrefix(l, "Connecting")
					if !ok {
						a.err = fmt.Errorf("connect command answered %q", l)
						w.Count("probe_dial_retry", 1)
						time.Sleep(2 * time.Second)
					}
				}
				if !ok {
					return
				}
				a.err = nil
				c = &pipeHalfCloser{cli}
			case "bridge":
				// stand-in for a TCP proxy service: a local byte stream bridged to the mesh stream by BridgeConns
				conn, err := dialRetry()
				if err != nil {
					a.err = fmt.Errorf("dial: %w", err)
					return
				}
				near, far := w.Pipe("proxy-near", "proxy-far", "tcp")
				go utils.BridgeConns(&pipeHalfCloser{far}, "tcp side", conn, "mesh side", src.Net().GetLogger())
				c = &pipeHalfCloser{near}
			default:
				conn, err := dialRetry()
				if err != nil {
					a.err = fmt.Errorf("dial: %w", err)
					return
				}
				c = conn
			}
			pump(c, append([]byte{'M'}, dataAB...), p.ChunkAB, &a, "A", false)
		}()
		// a neighbouring stream whose far end disappears
		if p.SinkCloseAtMs > 0 {
			if sink, err := dst.Net().Listen("sink", nil); err == nil {
				go func() {
					for {
						c, err := sink.Accept()
						if err != nil {
							if strings.Contains(err.Error(), "listener closed") {
								return
							}
							time.Sleep(time.Millisecond)
							continue
						}
						go func() { _, _ = io.Copy(io.Discard, c) }()
					}
				}()
				go func() {
					ctx, cancel := context.WithTimeout(context.Background(), 20*time.Second)
					conn, err := src.Net().DialContext(ctx, dst.ID, "sink", nil)
					cancel()
					if err != nil {
						return
					}
					w.Count("probe_neighbour_stream", 1)
					for i := 0; i < 400; i++ {
						if _, err := conn.Write([]byte("record")); err != nil {
							break
						}
						time.Sleep(25 * time.Millisecond)
					}
					_ = conn.CloseConnection()
				}()
				go func() {
					time.Sleep(time.Duration(p.SinkCloseAtMs) * time.Millisecond)
					_ = sink.Close()
					w.Count("fault_neighbour_listener_closed", 1)
				}()
			}
		}
		// other dials to the same service come and go; they must not disturb the stream
		for _, at := range p.AbandonAtMs {
			go func(at int) {
				time.Sleep(time.Duration(at) * time.Millisecond)
				ctx, cancel := context.WithTimeout(context.Background(), time.Duration(p.AbandonUs)*time.Microsecond)
				conn, err := src.Net().DialContext(ctx, dst.ID, "strm", nil)
				cancel()
				if err == nil {
					w.Count("probe_second_dial_completed", 1)
					_, _ = conn.Write([]byte{'X'})
					_ = conn.CloseConnection()
				} else {
					w.Count("fault_dial_abandoned", 1)
				}
			}(at)
		}
		// fault: cut the first link of the primary path while the alternative exists
		if p.CutAtMs > 0 && len(links) > 0 {
			go func() {
				time.Sleep(time.Duration(p.CutAtMs) * time.Millisecond)
				cutMu.Lock()
				cutTime = w.Now()
				cutMu.Unlock()
				cutMu.Lock()
				cutLinks[links[0]] = true
				cutMu.Unlock()
				links[0].Cut()
			}()
		}
		// faults stop after a while; then the transfer must finish within a bound
		done := make(chan struct{})
		go func() { wg.Wait(); close(done) }()
		select {
		case <-done:
		case <-time.After(90 * time.Second):
			for _, l := range links {
				l.Calm()
			}
			res.Add("probe_calmed", 1)
			select {
			case <-done:
			case <-time.After(400 * time.Second):
				res.Violate("c03:stalled", "transfer (%s, %d/%d bytes, %d hops) did not finish within 400 s after loss and reordering stopped: A got %d/%d err=%v, B got %d/%d err=%v",
					p.Via, p.SizeAB, p.SizeBA, last, len(a.got), len(dataBA), a.err, len(b.got), len(dataAB), b.err)
			}
		}
		check := func(name string, s *side, want []byte) {
			if len(s.got) > len(want) || !bytes.Equal(s.got, want[:len(s.got)]) {
				i := 0
				for i < len(s.got) && i < len(want) && s.got[i] == want[i] {
					i++
				}
				res.Violate("c03:corrupted", "%s received %d bytes (want %d): first difference at offset %d (via %s)", name, len(s.got), len(want), i, p.Via)
				return
			}
			if s.eof && len(s.got) < len(want) {
				res.Violate("c03:eof-before-data", "%s saw end-of-stream after %d of %d bytes (via %s, err %v)", name, len(s.got), len(want), p.Via, s.err)
				return
			}
			if len(s.got) < len(want) || !s.eof {
				// an error is acceptable only if the nodes were not mutually reachable; with an alternative path they always are
				res.Violate("c03:incomplete", "%s received %d of %d bytes, eof=%v, err=%v (via %s, cut at %d ms)", name, len(s.got), len(want), s.eof, s.err, p.Via, p.CutAtMs)
			}
		}
		if len(res.Violations) == 0 {
			check("A", &a, dataBA)
			check("B", &b, dataAB)
		}
		cutMu.Lock()
		didCut := len(cutLinks) > 0
		cutMu.Unlock()
		// the known finding: the stream dies when the link goes (the writer's datagram has no next hop for the ~100 ms
		// until the routing table is rebuilt).  The other end only notices when its idle timeout expires, and behind a
		// bridge the reader just sees an early end-of-stream, so neither the time nor the text of the symptom narrows
		// it further than "the run had a cut"; defects of other origin show in the runs without one.
		_ = cutTime
		if didCut {
			// whatever the symptom at the two ends, a stream that does not survive the loss of a link on its path
			// while another path exists is one finding
			for i := range res.Violations {
				if res.Violations[i].Sig == "c03:incomplete" || res.Violations[i].Sig == "c03:eof-before-data" || res.Violations[i].Sig == "c03:stalled" {
					res.Violations[i].Detail = "[" + res.Violations[i].Sig + "] " + res.Violations[i].Detail
					res.Violations[i].Sig = "c03:stream-died-on-reroute"
				}
			}
		}
		dumpEvents(w, "")
		if os.Getenv("VERIF_DEBUG") != "" {
			type bk struct {
				sec  int
				dir  string
				fate string
			}
			cnt := map[bk]int{}
			for _, r := range w.Wire() {
				if r.Type == simnet.MsgData {
					cnt[bk{int(r.At / (5 * time.Second)), r.From + ">" + r.To, r.Fate}]++
				}
			}
			keys := []string{}
			for k, v := range cnt {
				keys = append(keys, fmt.Sprintf("%03d %s %s %d", k.sec*5, k.dir, k.fate, v))
			}
			sort.Strings(keys)
			for _, k := range keys {
				fmt.Fprintln(os.Stderr, k)
			}
		}
		res.Add("bytes_transferred", int64(len(a.got)+len(b.got)))
		res.SimSeconds = w.Now().Seconds()
		res.LogHash, res.LogLines = w.CanonicalLogHash()
		res.Merge(w.Stats())
		lossy := 0
		for _, pl := range p.Links {
			if pl.Drop > 0 || pl.Dup > 0 || pl.JitUs > 0 {
				lossy++
			}
		}
		res.Class = fmt.Sprintf("hops=%d lossy=%d via=%s ab=%d ba=%d cut=%v", last, lossy, p.Via, bucket(p.SizeAB), bucket(p.SizeBA), p.CutAtMs > 0)
		close(stopRedial)
		_ = li.Close()
		for _, n := range m.Nodes {
			n.Stop()
		}
		time.Sleep(35 * time.Second)
	})
}

// pipeHalfCloser makes Close on a simulated pipe a half-close (as closing the
// writing side of a TCP connection): the peer sees EOF, reading continues.
type pipeHalfCloser struct{ c *simnet.Conn }

func (p *pipeHalfCloser) Read(b []byte) (int, error)  { return p.c.Read(b) }
func (p *pipeHalfCloser) Write(b []byte) (int, error) { return p.c.Write(b) }
func (p *pipeHalfCloser) Close() error                { return p.c.CloseWrite() }

var _ net.Conn = (*simnet.Conn)(nil)

func TestC03(t *testing.T) {
	quiet()
	simnet.RunCheck(t, simnet.Check{ID: "C03", Gen: genC03, NewPlan: func() any { return &C03Plan{} }, Run: runC03})
}
