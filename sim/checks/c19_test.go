//go:build verif

package checks

import (
	"crypto/tls"
	"encoding/json"
	"fmt"
	"os"
	"strings"
	"testing"
	"time"

	"github.com/ansible/receptor/pkg/workceptor"
	"verif/sim/simnet"
	"verif/sim/simwork"
)

// C19 — secret work parameters are never disclosed by the API nor sent without TLS.

type c19Op struct {
	Kind string `json:"kind"` // status list cancel release restart status-json list-unit
}

type C19Plan struct {
	Keys   []string `json:"keys"` // parameter names (secret and non-secret spellings)
	TLS    string   `json:"tls"`  // "" (none), "default" (a real client profile), "nosuch"
	Conn   string   `json:"conn"`
	TTL    string   `json:"ttl"`        // "" | a duration | something that does not parse (the submission then fails half-way)
	Crash  int      `json:"crash_step"` // the node dies at its n-th file step during the submission (0: no crash), then restarts
	Ops    []c19Op  `json:"ops"`
	Shrink []string `json:"_shrink"`
}

var c19KeyPool = []string{"secret_x", "SECRET_Y", "Secret_Z", "sEcReT_w", "secret_", "secret_a_b", "xsecret_q", "secret", "SECRET", "secre_t", "_secret_k", "plain", "token", "Secret-dash", "secret_ünï"}

func c19IsSecret(k string) bool { return strings.HasPrefix(strings.ToLower(k), "secret_") }

func genC19(seed uint64, tier string) any {
	r := simnet.NewRng(seed, "c19")
	p := &C19Plan{Shrink: []string{"ops", "keys"}}
	pool := append([]string(nil), c19KeyPool...)
	simnet.Shuffle(r, pool)
	p.Keys = pool[:r.Range(1, 6)]
	p.TLS = simnet.Pick(r, []string{"", "", "tlsc", "tlsc", "nosuch"})
	p.Conn = simnet.Pick(r, []string{"unix", "tcp"})
	p.TTL = simnet.Pick(r, []string{"", "", "", "1h", "soon", "-"})
	if r.Bool(0.3) {
		p.Crash = r.Range(1, 14)
	}
	n := r.Range(3, 9)
	if tier == "thorough" {
		n = r.Range(5, 16)
	}
	for i := 0; i < n; i++ {
		p.Ops = append(p.Ops, c19Op{Kind: simnet.Pick(r, []string{"status", "list", "status-json", "list-unit", "restart", "cancel", "status", "list", "release"})})
	}
	return p
}

func runC19(t *testing.T, planAny any, res *simnet.Result) {
	p := planAny.(*C19Plan)
	runDir := simwork.NewRunDir()
	defer simwork.RemoveRunDir(runDir)
	simnet.Bubble(t, func() {
		w := simnet.NewWorld(res.Seed)
		ctl := simwork.NewStepCtl()
		defer ctl.Close()
		m := simnet.NewMesh(w)
		k := simnet.DefaultKnobs()
		k.ServiceAd = 0
		nn := m.AddNode("w0", k)
		node := simwork.NewWorkNode(w, ctl, nn, runDir, []simwork.WorkType{{Name: "echo", Cmd: "@stub"}})
		node.Configure = func(_ *workceptor.Workceptor) {
			// a usable TLS client profile (the remote node is unreachable anyway: what matters is that one is named)
			_ = nn.Net().SetClientTLSConfig("tlsc", &tls.Config{MinVersion: tls.VersionTLS12}, nil)
		}
		if err := node.Start(); err != nil {
			res.Violate("harness", "start: %v", err)
			return
		}
		// parameter values are unique markers
		params := map[string]string{}
		secrets, plain := map[string]string{}, map[string]string{}
		hasSecret := false
		for i, key := range p.Keys {
			val := fmt.Sprintf("MARK%d%x", i, simnet.H(res.Seed, "mark", key)&0xffffffff)
			params[key] = val
			if c19IsSecret(key) {
				secrets[key] = val
				hasSecret = true
			} else {
				plain[key] = val
			}
		}
		req := map[string]any{"command": "work", "subcommand": "submit", "node": "faraway", "worktype": "echo"}
		for k2, v := range params {
			req[k2] = v
		}
		if p.TLS != "" {
			req["tlsclient"] = p.TLS
		}
		if p.TTL != "" {
			req["ttl"] = p.TTL
		}
		badTTL := p.TTL == "soon" || p.TTL == "-"
		crashed := make(chan struct{}, 1)
		if p.Crash > 0 {
			ctl.CrashAt("during-submit", node.Alias()+"/", "", p.Crash, func() {
				go func() {
					node.Crash()
					crashed <- struct{}{}
				}()
			})
		}
		line, _ := json.Marshal(req)
		var transcript []string
		leak := func(where, text string) {
			for key, val := range secrets {
				if strings.Contains(text, val) {
					res.Violate("c19:secret-disclosed|"+where, "the value of parameter %q appears in the response to %s: %s", key, where, trunc(text))
				}
			}
		}
		before := dirSnapshot(node.UnitDirReal(""))
		wireBefore := w.WireLen()
		c := node.Session(p.Conn)
		_, _ = c.Hello()
		unit, ack, final, _ := c.Submit(string(line), []byte("stdin"), 20*time.Second)
		c.Close()
		transcript = append(transcript, ack, final)
		leak("submit", ack+"\n"+final)
		time.Sleep(500 * time.Millisecond)
		simnet.Quiesce()
		ctl.DisarmAll()
		died := false
		select {
		case <-crashed:
			died = true
		default:
		}
		if !node.Up() {
			died = true
			select {
			case <-crashed:
			case <-time.After(5 * time.Second):
			}
		}
		if died {
			// killed in the middle of the submission: whatever it left on disk is loaded by the next incarnation, and
			// nothing of it may be shown
			time.Sleep(700 * time.Millisecond)
			if err := node.Start(); err != nil {
				res.Violate("harness", "restart: %v", err)
				return
			}
			res.Add("fault_crash_during_submit", 1)
		}
		// whatever became of the submission: no answer to any listing shows a secret value
		{
			lc := node.Session(p.Conn)
			_, _ = lc.Hello()
			reply, err := lc.Cmd("work list", 20*time.Second)
			lc.Close()
			if err != nil {
				res.Violate("c19:no-answer", "work list after the submission: %v", err)
			} else {
				leak("list-after-submit", reply)
				res.Add("responses_scanned", 1)
			}
		}
		mustRefuse := hasSecret && p.TLS == ""
		switch {
		case died:
			if unit == "" {
				// not acknowledged: nothing more is known about it
				res.Add("probe_submit_not_acknowledged", 1)
			}
		case badTTL && !mustRefuse && p.TLS != "nosuch":
			if unit != "" && !strings.HasPrefix(final, "ERROR") && !strings.HasPrefix(ack, "ERROR") {
				res.Add("probe_bad_ttl_accepted", 1)
			}
			unit = "" // the submission failed (or its fate is not the subject here); only the listings matter
			res.Add("probe_failed_submission", 1)
		case mustRefuse:
			if unit != "" || !strings.HasPrefix(ack, "ERROR") {
				res.Violate("c19:secrets-without-tls-accepted", "remote submission with secret parameters %v and no TLS profile was accepted: %q", simnet.SortedKeys(secrets), trunc(ack))
			}
			if d := diffSnap(before, dirSnapshot(node.UnitDirReal(""))); len(d) > 0 {
				res.Violate("c19:refusal-left-files", "refused submission left something behind: %v", d)
			}
			for _, r := range w.Wire()[wireBefore:] {
				if r.Type == simnet.MsgData {
					res.Violate("c19:refusal-sent-traffic", "refused submission caused mesh traffic")
					break
				}
			}
			res.Add("probe_refused_no_tls", 1)
		case p.TLS == "nosuch":
			if unit != "" {
				res.Violate("c19:unknown-tls-accepted", "submission naming an unknown TLS profile was accepted")
			}
		default:
			if unit == "" {
				res.Violate("c19:submission-refused", "submission (tls=%q, secrets=%v) refused: %q", p.TLS, hasSecret, trunc(ack))
			}
		}
		kinds := map[string]bool{}
		if unit != "" {
			// the record on disk keeps the secrets (needed to resume the submission); the API must not show them
			if hasSecret {
				rec, _ := os.ReadFile(node.UnitDirReal(unit) + "/status")
				for _, v := range secrets {
					if strings.Contains(string(rec), v) {
						res.Add("probe_secret_on_disk", 1)
						break
					}
				}
			}
			released := false
			for _, op := range p.Ops {
				kinds[op.Kind] = true
				if op.Kind == "restart" {
					node.Crash()
					time.Sleep(1200 * time.Millisecond)
					if err := node.Start(); err != nil {
						res.Violate("harness", "restart: %v", err)
						return
					}
					res.Add("probe_restart", 1)
					continue
				}
				cl := node.Session(p.Conn)
				_, _ = cl.Hello()
				var cmd string
				switch op.Kind {
				case "status":
					cmd = "work status " + unit
				case "status-json":
					cmd = `{"command":"work","subcommand":"status","unitid":"` + unit + `"}`
				case "list":
					cmd = "work list"
				case "list-unit":
					cmd = "work list " + unit
				case "cancel":
					cmd = "work cancel " + unit
				case "release":
					cmd = "work force-release " + unit
				}
				reply, err := cl.Cmd(cmd, 20*time.Second)
				cl.Close()
				if err != nil {
					res.Violate("c19:no-answer", "%s: %v", cmd, err)
					break
				}
				leak(op.Kind, reply)
				res.Add("responses_scanned", 1)
				if op.Kind == "release" && strings.Contains(reply, "released") {
					released = true
				}
				// all other parameters are reported unchanged
				if !released && (op.Kind == "status" || op.Kind == "status-json" || op.Kind == "list" || op.Kind == "list-unit") && strings.HasPrefix(reply, "{") {
					for key, val := range plain {
						kb, _ := json.Marshal(key)
						if !strings.Contains(reply, string(kb)+`:"`+val+`"`) {
							res.Violate("c19:plain-parameter-missing", "non-secret parameter %q is not reported by %s: %s", key, op.Kind, trunc(reply))
						}
					}
					for key := range secrets {
						kb, _ := json.Marshal(key)
						if strings.Contains(reply, string(kb)+":") {
							res.Violate("c19:secret-key-listed", "secret parameter name %q is listed by %s: %s", key, op.Kind, trunc(reply))
						}
					}
				}
				time.Sleep(300 * time.Millisecond)
			}
		}
		res.SimSeconds = w.Now().Seconds()
		res.LogHash, res.LogLines = w.CanonicalLogHash()
		res.Merge(w.Stats())
		ks := append([]string(nil), p.Keys...)
		res.Class = fmt.Sprintf("keys=%d secret=%v tls=%s conn=%s ops=%s", len(ks), hasSecret, p.TLS, p.Conn, strings.Join(simnet.SortedKeys(kinds), "+"))
		node.Crash()
		time.Sleep(3 * time.Second)
	})
}

func TestC19(t *testing.T) {
	quiet()
	defer simwork.CleanupScratch()
	simnet.RunCheck(t, simnet.Check{ID: "C19", Gen: genC19, NewPlan: func() any { return &C19Plan{} }, Run: runC19})
}
