package checks

import (
	"context"
	"fmt"
	"strings"
	"sync"
	"testing"
	"time"

	"github.com/ansible/receptor/pkg/netceptor"
	"verif/sim/simnet"
)

// C16 — senders learn when the target service does not exist; dials to it fail fast.

type c16Case struct {
	Kind    string `json:"kind"` // unbound closed-before closed-after local dial dial-closed fw-drop bound
	From    int    `json:"from"`
	To      int    `json:"to"`
	Svc     string `json:"svc"`
	DeltaUs int    `json:"delta_us"` // close relative to the arrival of the packet
	Extra   int    `json:"extra"`    // unrelated sockets open on the sender
	Hops    int    `json:"hops"`     // hop budget of the sending socket: 0 default, 1: exactly the distance, 2: distance+1
	CloseN  int    `json:"close_n"`  // that many of the unrelated sockets are closed at the very instant the notice arrives
	Shared  bool   `json:"shared"`   // the sender uses a long-lived socket of its node (shared by all such cases of the run) with a fresh subscription
	EndSub  bool   `json:"end_sub"`  // the sender gives up its subscription at the very instant the notice arrives (what it then sees is not checked; what later senders see is)
	Slow    bool   `json:"slow"`     // another application on the sender is slow to read its own notices while this case's socket is opened and used
}

type C16Plan struct {
	N      int       `json:"n"`
	MaxHop int       `json:"max_hop"` // node-wide hop limit: 0 default (30), 1: number of nodes - 1, 2: number of nodes
	Edges  [][2]int  `json:"edges"`
	Cases  []c16Case `json:"cases"`
	Shrink []string  `json:"_shrink"`
}

func genC16(seed uint64, tier string) any {
	r := simnet.NewRng(seed, "c16")
	p := &C16Plan{Shrink: []string{"cases"}}
	p.N = r.Range(2, 5)
	p.MaxHop = simnet.Pick(r, []int{0, 0, 1, 2})
	for i := 1; i < p.N; i++ {
		p.Edges = append(p.Edges, [2]int{r.Intn(i), i})
	}
	if p.N > 2 && r.Bool(0.4) {
		a, b := r.Intn(p.N), r.Intn(p.N)
		ok := a != b
		for _, e := range p.Edges {
			if (e[0] == a && e[1] == b) || (e[0] == b && e[1] == a) {
				ok = false
			}
		}
		if ok {
			p.Edges = append(p.Edges, [2]int{a, b})
		}
	}
	n := r.Range(6, 16)
	if tier == "thorough" {
		n = r.Range(10, 40)
	}
	kinds := []string{"unbound", "unbound", "closed-before", "closed-before", "closed-after", "local", "dial", "dial-closed", "fw-drop", "bound"}
	for i := 0; i < n; i++ {
		c := c16Case{Kind: simnet.Pick(r, kinds), From: r.Intn(p.N), To: r.Intn(p.N), Extra: r.Range(1, 8),
			Svc: simnet.Pick(r, []string{"svc", "x", "abcdefgh", "control", "pinG", "unreac"})}
		for c.To == c.From && c.Kind != "local" {
			c.To = r.Intn(p.N)
		}
		if c.Kind == "local" {
			c.To = c.From
		}
		c.Hops = simnet.Pick(r, []int{0, 0, 1, 2})
		if r.Bool(0.5) {
			c.CloseN = r.Range(1, 4)
		}
		c.Slow = r.Bool(0.3)
		c.EndSub = r.Bool(0.2)
		c.Shared = r.Bool(0.4)
		switch r.Intn(3) {
		case 0:
			c.DeltaUs = r.Range(1, 50)
		case 1:
			c.DeltaUs = r.Range(50, 5000)
		default:
			c.DeltaUs = r.Range(5000, 300000)
		}
		p.Cases = append(p.Cases, c)
	}
	return p
}

func runC16(t *testing.T, planAny any, res *simnet.Result) {
	p := planAny.(*C16Plan)
	simnet.Bubble(t, func() {
		w := simnet.NewWorld(res.Seed)
		m := simnet.NewMesh(w)
		k := simnet.DefaultKnobs()
		k.ServiceAd = 0
		k.RouteUpdate = time.Hour
		k.MaxIdle = 3 * time.Hour
		switch p.MaxHop {
		case 1:
			k.MaxHops = p.N - 1 // still at least the longest possible route
		case 2:
			k.MaxHops = p.N
		}
		ids := make([]string, p.N)
		for i := range ids {
			ids[i] = fmt.Sprintf("n%d", i)
			m.AddNode(ids[i], k)
		}
		lat := map[string]time.Duration{}
		for i, e := range p.Edges {
			if e[0] >= p.N || e[1] >= p.N {
				continue
			}
			name := fmt.Sprintf("L%d", i+1)
			d := time.Duration(1+simnet.H(res.Seed, "lat", name)%8)*time.Millisecond + time.Duration(simnet.H(res.Seed, "latn", name)%9973)*time.Nanosecond
			l := m.AddLink(simnet.LinkCfg{Name: name, Latency: d, FIFO: true, Framed: simnet.H(res.Seed, "fr", name)%2 == 0}, ids[e[0]], ids[e[1]], simnet.DyadicCost(1, i*31+7))
			lat[ids[e[0]]+">"+ids[e[1]]], lat[ids[e[1]]+">"+ids[e[0]]] = d, d
			_ = m.Up(l)
		}
		time.Sleep(3 * time.Second)
		pathLat := func(a, b string) (time.Duration, bool) {
			path := m.RoutePath(a, b)
			if path == nil {
				return 0, false
			}
			var d time.Duration
			for i := 1; i < len(path); i++ {
				d += lat[path[i-1]+">"+path[i]]
			}
			return d, true
		}
		// watchers: every socket that exists during a case listens for notices
		kinds := map[string]int{}
		sharedSock := map[string]netceptor.PacketConner{}
		defer func() {
			for _, pc := range sharedSock {
				_ = pc.Close()
			}
		}()
		for ci, c := range p.Cases {
			if c.From >= p.N || c.To >= p.N {
				continue
			}
			src, dst := m.Nodes[ids[c.From]], m.Nodes[ids[c.To]]
			oneWay, ok := pathLat(src.ID, dst.ID)
			if !ok {
				continue
			}
			kinds[c.Kind]++
			var mu sync.Mutex
			stray := []string{}
			done := make(chan struct{})
			var extras []netceptor.PacketConner
			watch := func(name string, pc netceptor.PacketConner) {
				ch := pc.SubscribeUnreachable(done)
				go func() {
					for n := range ch {
						mu.Lock()
						stray = append(stray, fmt.Sprintf("%s got %+v", name, n))
						mu.Unlock()
					}
				}()
			}
			for e := 0; e < c.Extra; e++ {
				pc, err := src.Net().ListenPacket(fmt.Sprintf("e%d_%d", ci%100, e))
				if err == nil {
					extras = append(extras, pc)
					watch("unrelated socket on the sender", pc)
				}
			}
			for _, id := range ids {
				if id != src.ID {
					pc, err := m.Nodes[id].Net().ListenPacket(fmt.Sprintf("w%d", ci%1000))
					if err == nil {
						extras = append(extras, pc)
						watch("socket on "+id, pc)
					}
				}
			}
			cleanup := func() {
				close(done)
				for _, pc := range extras {
					_ = pc.Close()
				}
			}
			switch c.Kind {
			case "unbound", "closed-before", "closed-after", "local", "fw-drop", "bound":
				fs := fmt.Sprintf("s%d", ci%1000)
				if c.Slow && c.Kind != "local" {
					// an unrelated application that takes its time over each of its own notices
					if slow, err := src.Net().ListenPacket(fmt.Sprintf("z%d", ci%1000)); err == nil {
						extras = append(extras, slow)
						sch := slow.SubscribeUnreachable(done)
						go func() {
							for range sch {
								time.Sleep(300 * time.Millisecond)
							}
						}()
						// (every stage between the node's notice broker and the application holds one notice: it takes six
						// to make the broker itself wait)
						for i := 0; i < 7; i++ {
							_, _ = slow.WriteTo([]byte("x"), src.Net().NewAddr(dst.ID, "nosuchsv"))
							time.Sleep(time.Millisecond)
						}
						// the case's socket is opened while those notices are being handed over
						time.Sleep(2*oneWay + 5*time.Millisecond)
						res.Add("fault_slow_notice_consumer", 1)
					}
				}
				var spc netceptor.PacketConner
				var err error
				if c.Shared {
					fs = "shr"
					if spc = sharedSock[src.ID]; spc == nil {
						if spc, err = src.Net().ListenPacket(fs); err == nil {
							sharedSock[src.ID] = spc
						}
					}
				} else {
					spc, err = src.Net().ListenPacket(fs)
				}
				if err != nil || spc == nil {
					cleanup()
					continue
				}
				sdone := make(chan struct{})
				unr := spc.SubscribeUnreachable(sdone)
				var lpc netceptor.PacketConner
				got := make(chan string, 4)
				if c.Kind != "unbound" && c.Kind != "local" {
					lpc, err = dst.Net().ListenPacket(c.Svc)
					if err != nil {
						close(sdone)
						if !c.Shared {
							_ = spc.Close()
						}
						cleanup()
						continue
					}
					go func() {
						buf := make([]byte, 64)
						for {
							n, _, err := lpc.ReadFrom(buf)
							if err != nil {
								return
							}
							got <- string(buf[:n])
						}
					}()
				}
				if c.Kind == "fw-drop" {
					rules, _ := netceptor.ParseFirewallRules([]netceptor.FirewallRuleData{{"action": "drop", "toservice": c.Svc, "fromservice": fs}})
					_ = dst.Net().AddFirewallRules(rules, true)
				}
				if c.Shared {
					spc.SetHopsToLive(byte(k.MaxHops)) // (a budget set by an earlier case must not linger)
				}
				if hops := len(m.RoutePath(src.ID, dst.ID)) - 1; c.Hops > 0 && hops > 0 {
					spc.SetHopsToLive(byte(hops + c.Hops - 1))
					res.Add("probe_tight_hop_budget", 1)
				}
				payload := fmt.Sprintf("case-%d", ci)
				t0 := w.Now()
				sdoneClosed := false
				var sdoneMu sync.Mutex
				closeSdone := func() {
					sdoneMu.Lock()
					if !sdoneClosed {
						sdoneClosed = true
						close(sdone)
					}
					sdoneMu.Unlock()
				}
				if c.EndSub && (c.Kind == "unbound" || c.Kind == "closed-before") {
					for k := 0; k < 3; k++ { // a few more datagrams, so that notices keep coming while the subscription ends
						_, _ = spc.WriteTo([]byte("more"), src.Net().NewAddr(dst.ID, c.Svc))
					}
					go func() {
						w.SleepUntil(t0 + 2*oneWay)
						closeSdone()
					}()
					res.Add("fault_subscription_ended_during_notice", 1)
				}
				if c.CloseN > 0 && c.Kind != "local" {
					// other sockets of the sender go away at the instant the answer comes in
					for e := 0; e < c.CloseN && e < len(extras); e++ {
						go func(pc netceptor.PacketConner, e int) {
							w.SleepUntil(t0 + 2*oneWay)
							_ = pc.Close()
						}(extras[e], e)
					}
					res.Add("fault_close_during_notice", 1)
				}
				closeAt := time.Duration(-1)
				switch c.Kind {
				case "closed-before":
					closeAt = oneWay - time.Duration(c.DeltaUs)*time.Microsecond
				case "closed-after":
					closeAt = oneWay + time.Duration(c.DeltaUs)*time.Microsecond
				}
				var werr error
				if closeAt < 0 && c.Kind == "closed-before" {
					_ = lpc.Close()
					_, werr = spc.WriteTo([]byte(payload), src.Net().NewAddr(dst.ID, c.Svc))
				} else {
					_, werr = spc.WriteTo([]byte(payload), src.Net().NewAddr(dst.ID, c.Svc))
					if closeAt >= 0 {
						w.SleepUntil(t0 + closeAt)
						_ = lpc.Close()
					}
				}
				time.Sleep(2*oneWay + 400*time.Millisecond)
				if c.Slow {
					time.Sleep(2500 * time.Millisecond) // (notices queue behind the slow application's)
				}
				simnet.Quiesce()
				delivered := len(got)
				var notes []netceptor.UnreachableNotification
				for {
					select {
					case n, ok := <-unr:
						if ok { // (closed once the subscription has ended)
							notes = append(notes, n)
							continue
						}
					default:
					}
					break
				}
				wantNotice := c.Kind == "unbound" || c.Kind == "closed-before"
				switch {
				case c.Kind == "local":
					if werr == nil || !strings.Contains(werr.Error(), netceptor.ProblemServiceUnknown) {
						res.Violate("c16:local-no-error", "send to an unbound local service %q returned %v", c.Svc, werr)
					}
					if len(notes) != 0 {
						res.Violate("c16:local-notice", "local send produced notices %+v", notes)
					}
				case wantNotice && c.EndSub:
					// nothing to check here; the cases that follow show whether the node still reports
				case wantNotice:
					if len(notes) != 1 || notes[0].Problem != netceptor.ProblemServiceUnknown || notes[0].FromNode != src.ID || notes[0].ToNode != dst.ID ||
						notes[0].FromService != fs || notes[0].ToService != c.Svc || notes[0].ReceivedFromNode != dst.ID {
						res.Violate("c16:notice|"+c.Kind, "case %+v (%s->%s): sender got %d notices %+v, delivered=%d, werr=%v (want exactly one 'service unknown' echoing the packet)",
							c, src.ID, dst.ID, len(notes), notes, delivered, werr)
					}
					if delivered != 0 {
						res.Violate("c16:delivered-to-closed", "case %+v: datagram delivered %d times although the service was closed before it arrived", c, delivered)
					}
				case c.Kind == "fw-drop":
					if len(notes) != 0 || delivered != 0 {
						res.Violate("c16:drop-not-silent", "case %+v: packet dropped by policy produced notices %+v / deliveries %d", c, notes, delivered)
					}
				default: // bound, closed-after
					if delivered != 1 || len(notes) != 0 {
						res.Violate("c16:bound-service", "case %+v: delivered %d, notices %+v (service was open when the packet arrived)", c, delivered, notes)
					}
				}
				if c.Kind == "fw-drop" {
					_ = dst.Net().AddFirewallRules(nil, true)
				}
				closeSdone()
				if !c.Shared {
					_ = spc.Close()
				}
				if lpc != nil {
					_ = lpc.Close()
				}
			case "dial", "dial-closed":
				if c.Kind == "dial-closed" {
					li, err := dst.Net().Listen(c.Svc, nil)
					if err == nil {
						_ = li.Close()
					}
					time.Sleep(100 * time.Millisecond)
				}
				t0 := w.Now()
				ctx, cancel := context.WithTimeout(context.Background(), 40*time.Second)
				conn, err := src.Net().DialContext(ctx, dst.ID, c.Svc, nil)
				el := w.Now() - t0
				cancel()
				if err == nil {
					res.Violate("c16:dial-succeeded", "dial to unbound %s:%s succeeded", dst.ID, c.Svc)
					_ = conn.Close()
				} else if el > 4*oneWay+2*time.Second {
					res.Violate("c16:dial-slow", "dial to unbound %s:%s failed only after %v (err %v): the notice did not abandon it", dst.ID, c.Svc, el, err)
				}
				res.Add("dial_elapsed_ms", int64(el/time.Millisecond))
				time.Sleep(500 * time.Millisecond)
			}
			simnet.Quiesce()
			mu.Lock()
			if len(stray) > 0 {
				res.Violate("c16:notice-wrong-socket", "case %+v: %s", c, strings.Join(stray, "; "))
			}
			mu.Unlock()
			cleanup()
			if len(res.Violations) > 3 {
				break
			}
		}
		res.SimSeconds = w.Now().Seconds()
		res.LogHash, res.LogLines = w.CanonicalLogHash()
		res.Merge(w.Stats())
		ks := simnet.SortedKeys(kinds)
		for _, kk := range ks {
			res.Add("probe_"+kk, int64(kinds[kk]))
		}
		res.Class = fmt.Sprintf("n=%d e=%d kinds=%s", p.N, len(p.Edges), strings.Join(ks, "+"))
		for _, n := range m.Nodes {
			n.Stop()
		}
		time.Sleep(3 * time.Second)
	})
}

func TestC16(t *testing.T) {
	quiet()
	simnet.RunCheck(t, simnet.Check{ID: "C16", Gen: genC16, NewPlan: func() any { return &C16Plan{} }, Run: runC16})
}
