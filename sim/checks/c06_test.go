package checks

import (
	"fmt"
	"os"
	"reflect"
	"sort"
	"strings"
	"testing"
	"time"

	"verif/sim/simnet"
)

// C06 — routing knowledge never regresses; updates are applied and relayed at
// most once.

type c06Link struct {
	Name  string  `json:"name"`
	A     string  `json:"a"`
	B     string  `json:"b"`
	LatUs int     `json:"lat_us"`
	JitUs int     `json:"jit_us"`
	Drop  float64 `json:"drop"`
	Dup   float64 `json:"dup"`
}

type c06Event struct {
	AtMs    int    `json:"at_ms"`
	Kind    string `json:"kind"` // restart cut heal probe
	Node    string `json:"node,omitempty"`
	Link    string `json:"link,omitempty"`
	Variant string `json:"variant,omitempty"`
	Origin  string `json:"origin,omitempty"`
}

type C06Plan struct {
	RouteUpdateS int        `json:"route_update_s"`
	SeenExpireS  int        `json:"seen_expire_s"`
	Nodes        []string   `json:"nodes"`
	Links        []c06Link  `json:"links"`
	ScriptAt     string     `json:"script_at"`
	Twins        int        `json:"twins"` // rounds of "first two updates of an unknown origin in one instant over two neighbours"
	Events       []c06Event `json:"events"`
	Shrink       []string   `json:"_shrink"`
}

var c06Variants = []string{"old-epoch", "same-seq", "lower-seq", "replay", "replay-newid", "self-origin", "fresh", "dup-notice-stale"}

func genC06(seed uint64, tier string) any {
	r := simnet.NewRng(seed, "c06")
	p := &C06Plan{Shrink: []string{"events"}}
	p.RouteUpdateS = r.Range(2, 10)
	p.SeenExpireS = simnet.Pick(r, []int{30, 60, 600, 3600})
	n := r.Range(3, 6)
	for i := 0; i < n; i++ {
		p.Nodes = append(p.Nodes, fmt.Sprintf("n%d", i))
	}
	k := 0
	add := func(a, b int) {
		k++
		p.Links = append(p.Links, c06Link{Name: fmt.Sprintf("L%d", k), A: p.Nodes[a], B: p.Nodes[b],
			LatUs: r.Range(500, 30000), JitUs: r.Range(0, 60000), Drop: []float64{0, 0, 0.02, 0.1}[r.Intn(4)], Dup: []float64{0, 0.05, 0.2}[r.Intn(3)]})
	}
	for i := 1; i < n; i++ {
		add(r.Intn(i), i)
	}
	for e := r.Intn(n); e > 0; e-- {
		a, b := r.Intn(n), r.Intn(n)
		if a == b {
			continue
		}
		dup := false
		for _, l := range p.Links {
			if (l.A == p.Nodes[a] && l.B == p.Nodes[b]) || (l.A == p.Nodes[b] && l.B == p.Nodes[a]) {
				dup = true
			}
		}
		if !dup {
			add(a, b)
		}
	}
	p.ScriptAt = simnet.Pick(r, p.Nodes)
	at := 15000
	nev := r.Range(4, 14)
	if tier == "thorough" {
		nev = r.Range(6, 30)
	}
	for e := 0; e < nev; e++ {
		at += r.Range(300, 9000)
		ev := c06Event{AtMs: at}
		switch x := r.Intn(100); {
		case x < 8:
			// never restart the node the script hangs on: its session would just end
			ev.Kind, ev.Node = "restart", simnet.Pick(r, p.Nodes)
			if ev.Node == p.ScriptAt {
				ev.Kind, ev.Variant, ev.Origin = "probe", "fresh", ""
			}
		case x < 14:
			ev.Kind, ev.Link = "cut", simnet.Pick(r, p.Links).Name
		case x < 22:
			ev.Kind, ev.Link = "heal", simnet.Pick(r, p.Links).Name
		default:
			ev.Kind, ev.Variant, ev.Origin = "probe", simnet.Pick(r, c06Variants), simnet.Pick(r, p.Nodes)
		}
		p.Events = append(p.Events, ev)
	}
	if r.Bool(0.5) {
		p.Twins = r.Range(2, 8)
	}
	return p
}

type epochSeq struct{ e, s uint64 }

func (a epochSeq) less(b epochSeq) bool { return a.e < b.e || (a.e == b.e && a.s < b.s) }

func runC06(t *testing.T, planAny any, res *simnet.Result) {
	p := planAny.(*C06Plan)
	simnet.Bubble(t, func() {
		w := simnet.NewWorld(res.Seed)
		// seeded pauses inside the update handler (between the dedup check, the epoch check and the relay)
		defer installYields(res.Seed, 0.3, "route.seen", "route.relay")()
		m := simnet.NewMesh(w)
		k := simnet.DefaultKnobs()
		k.RouteUpdate = time.Duration(p.RouteUpdateS) * time.Second
		k.MaxIdle = 2*k.RouteUpdate + 3*time.Second
		k.SeenExpire = time.Duration(p.SeenExpireS) * time.Second
		k.ServiceAd = 0
		for _, id := range p.Nodes {
			m.AddNode(id, k)
		}
		links := map[string]*simnet.Link{}
		var maxHop time.Duration
		for _, pl := range p.Links {
			if m.Nodes[pl.A] == nil || m.Nodes[pl.B] == nil {
				continue
			}
			cfg := simnet.LinkCfg{Name: pl.Name, Latency: time.Duration(pl.LatUs)*time.Microsecond + time.Duration(simnet.H(res.Seed, "lat", pl.Name)%977)*time.Nanosecond,
				Jitter: time.Duration(pl.JitUs) * time.Microsecond, Drop: pl.Drop, Dup: pl.Dup}
			l := m.AddLink(cfg, pl.A, pl.B, 1)
			links[pl.Name] = l
			if d := 3 * (cfg.Latency + cfg.Jitter); d > maxHop {
				maxHop = d
			}
			_ = m.Up(l)
		}
		x := m.Nodes[p.ScriptAt]
		if x == nil {
			return
		}
		time.Sleep(8 * time.Second)
		// the scripted peer hangs on a clean, in-order, 1 ms link
		sl, sess, err := m.AttachScripted(x, simnet.LinkCfg{Name: "S", Latency: time.Millisecond + 137*time.Nanosecond, FIFO: true}, "zs", 1)
		if err != nil {
			res.Violate("harness", "attach: %v", err)
			return
		}
		sp := simnet.NewScriptPeer(w, "zs", x.ID, 1, sl, sess)
		sp.Handshake()
		sp.Keepalive(k.RouteUpdate, nil)
		phantomSeq := uint64(0)
		phantomEpoch := uint64(7) << 24
		var lastPhantom *simnet.RoutingUpdate
		variantsHit := map[string]bool{}

		// newest update of origin y that has been handed to x (what x must have accepted)
		newestAtX := func(y string) (epochSeq, bool) {
			best, ok := epochSeq{}, false
			hs := c06Handshakes(w, x.ID)
			for _, r := range w.Wire() {
				if r.Route == nil || r.To != x.ID || r.Route.NodeID != y || r.Route.SuspectedDuplicate != 0 {
					continue
				}
				if len(w.DeliveredAt(r)) == 0 {
					continue
				}
				// the first routing message on a fresh session is the handshake, and an update of a direct
				// neighbour that does not list x is a late initialisation request: x does not process either
				// as an update, so neither tells what x has accepted
				if _, listed := r.Route.Connections[x.ID]; r.Route.NodeID == r.From && !listed {
					continue
				}
				if hs[r] {
					continue
				}
				es := epochSeq{r.Route.UpdateEpoch, r.Route.UpdateSequence}
				if !ok || best.less(es) {
					best, ok = es, true
				}
			}
			return best, ok
		}
		ownAtX := func() (epochSeq, bool) {
			best, ok := epochSeq{}, false
			for _, r := range w.Wire() {
				if r.Route == nil || r.From != x.ID || r.Route.NodeID != x.ID {
					continue
				}
				es := epochSeq{r.Route.UpdateEpoch, r.Route.UpdateSequence}
				if !ok || best.less(es) {
					best, ok = es, true
				}
			}
			return best, ok
		}

		probe := func(variant, origin string) {
			// (what has been handed to x may still be waiting at a yield point, up to 3 ms: "handed over" must mean
			// "processed" before the newest accepted update is read off the wire record)
			time.Sleep(4 * time.Millisecond)
			simnet.Quiesce()
			var u *simnet.RoutingUpdate
			expectChange := false
			switch variant {
			case "old-epoch", "same-seq", "lower-seq":
				if origin == x.ID || m.Nodes[origin] == nil {
					return
				}
				es, ok := newestAtX(origin)
				if !ok {
					return
				}
				u = &simnet.RoutingUpdate{NodeID: origin, UpdateID: sp.NextID(), ForwardingNode: sp.Name, Connections: map[string]float64{"ghost": 1}}
				switch variant {
				case "old-epoch":
					if es.e < 1<<24 {
						return
					}
					u.UpdateEpoch, u.UpdateSequence = es.e-(1<<24), es.s+1000000
				case "same-seq":
					u.UpdateEpoch, u.UpdateSequence = es.e, es.s
				case "lower-seq":
					if es.s < 1 {
						return
					}
					u.UpdateEpoch, u.UpdateSequence = es.e, es.s-1
				}
			case "replay", "replay-newid":
				if lastPhantom == nil {
					return
				}
				cp := *lastPhantom
				u = &cp
				if variant == "replay-newid" {
					u.UpdateID = sp.NextID()
					u.Connections = map[string]float64{"ghost": 2}
				}
			case "self-origin":
				es, ok := ownAtX()
				if !ok {
					return
				}
				u = &simnet.RoutingUpdate{NodeID: x.ID, UpdateID: sp.NextID(), UpdateEpoch: es.e, UpdateSequence: es.s + 500,
					ForwardingNode: sp.Name, Connections: map[string]float64{"ghost": 1}}
			case "dup-notice-stale":
				// a suspected-duplicate notice about a phantom whose recorded epoch does not match: must not change what is known
				if lastPhantom == nil {
					return
				}
				u = &simnet.RoutingUpdate{NodeID: "zq", UpdateID: sp.NextID(), UpdateEpoch: phantomEpoch - (1 << 24), UpdateSequence: 1,
					ForwardingNode: sp.Name, Connections: map[string]float64{"ghost": 3}, SuspectedDuplicate: 12345}
			case "fresh":
				phantomSeq++
				u = &simnet.RoutingUpdate{NodeID: "zq", UpdateID: sp.NextID(), UpdateEpoch: phantomEpoch, UpdateSequence: phantomSeq,
					ForwardingNode: sp.Name, Connections: map[string]float64{sp.Name: float64(phantomSeq)}}
				cp := *u
				lastPhantom = &cp
				expectChange = true
			default:
				return
			}
			before := x.Net().Status().KnownConnectionCosts
			t0 := w.Now()
			wireBefore := w.WireLen()
			_ = sp.SendRoute(u)
			// the handler may pause at its two yield points (up to 3 ms each)
			time.Sleep(sl.Cfg.Latency + 7*time.Millisecond)
			simnet.Quiesce()
			t1 := w.Now()
			after := x.Net().Status().KnownConnectionCosts
			// anything else handed to x inside the window makes the step inconclusive
			for _, r := range w.Wire() {
				if r.To != x.ID || r.From == sp.Name {
					continue
				}
				for _, d := range w.DeliveredAt(r) {
					// (a message handed over shortly before the window may still be at a yield point when it opens)
					if d >= t0-7*time.Millisecond && d <= t1 {
						res.Add("probe_inconclusive_window", 1)
						return
					}
				}
			}
			relays := 0
			for _, r := range w.Wire()[wireBefore:] {
				if r.From == x.ID && r.Route != nil && r.Route.UpdateID == u.UpdateID {
					relays++
					if r.To == sp.Name {
						res.Violate("c06:relayed-back", "%s relayed update %s back to the neighbour it came from", x.ID, u.UpdateID)
					}
				}
			}
			variantsHit[variant] = true
			res.Add("probe_stale_"+variant, 1)
			if expectChange {
				if reflect.DeepEqual(before["zq"], after["zq"]) {
					res.Violate("c06:fresh-ignored", "fresh update seq %d from phantom origin not applied at %s: %v", u.UpdateSequence, x.ID, after["zq"])
				}
				if want := len(x.Net().Status().Connections) - 1; relays != want {
					res.Violate("c06:fresh-relay-count", "fresh update relayed %d times by %s, has %d other neighbours", relays, x.ID, want)
				}
				return
			}
			// what a wrongly applied update about this origin can alter: the origin's own entry, and the edges other
			// nodes are recorded to have towards it.  (The rest of the picture may move for reasons of its own inside
			// the window - the node's own sessions come and go without any message being handed to it.)
			about := func(m map[string]map[string]float64) map[string]map[string]float64 {
				out := map[string]map[string]float64{"self": {}, "towards": {}}
				for k, v := range m[u.NodeID] {
					out["self"][k] = v
				}
				for z, conns := range m {
					if c, ok := conns[u.NodeID]; ok {
						out["towards"][z] = c
					}
				}
				return out
			}
			if !reflect.DeepEqual(about(before), about(after)) {
				res.Violate("c06:stale-applied|"+variant, "stale update (%s, origin %s, epoch %d seq %d) changed %s's picture:\nbefore=%v\nafter=%v",
					variant, u.NodeID, u.UpdateEpoch>>24, u.UpdateSequence, x.ID, before, after)
			}
			// Suspected-duplicate notices are flooded unconditionally (once per node, by update ID): they have to
			// reach the duplicate wherever it is; only "changes nothing" applies to them.
			if relays > 0 && u.SuspectedDuplicate == 0 {
				res.Violate("c06:stale-relayed|"+variant, "stale update (%s, origin %s) was relayed %d times by %s", variant, u.NodeID, relays, x.ID)
			}
		}

		evs := append([]c06Event(nil), p.Events...)
		sort.SliceStable(evs, func(i, j int) bool { return evs[i].AtMs < evs[j].AtMs })
		for _, ev := range evs {
			w.SleepUntil(time.Duration(ev.AtMs) * time.Millisecond)
			switch ev.Kind {
			case "probe":
				probe(ev.Variant, ev.Origin)
			case "cut":
				if l := links[ev.Link]; l != nil && l.Up() {
					l.Cut()
				}
			case "heal":
				if l := links[ev.Link]; l != nil && !l.Up() && m.Nodes[l.Ends[0]].Up() && m.Nodes[l.Ends[1]].Up() {
					_ = m.Up(l)
					w.Count("fault_heal", 1)
				}
			case "restart":
				n := m.Nodes[ev.Node]
				if n == nil || n.ID == x.ID || !n.Up() {
					continue
				}
				n.Stop()
				time.Sleep(1500 * time.Millisecond)
				n.Start()
				w.Count("fault_node_restart", 1)
				for _, name := range simnet.SortedKeys(links) {
					l := links[name]
					if (l.Ends[0] == n.ID || l.Ends[1] == n.ID) && m.Nodes[l.Ends[0]].Up() && m.Nodes[l.Ends[1]].Up() {
						_ = m.Up(l)
					}
				}
			}
		}
		// faults stop: heal everything, let periodic refresh repair what loss destroyed
		for _, name := range simnet.SortedKeys(links) {
			links[name].Calm()
		}
		time.Sleep(2 * time.Second) // what was in flight under the old regime lands
		for _, name := range simnet.SortedKeys(links) {
			l := links[name]
			if !l.Up() && m.Nodes[l.Ends[0]].Up() && m.Nodes[l.Ends[1]].Up() {
				_ = m.Up(l)
			}
		}
		time.Sleep(k.MaxIdle + 5*time.Second + 4*k.RouteUpdate)
		simnet.Quiesce()
		c06History(w, m, sp.Name, maxHop, len(p.Nodes), k.SeenExpire, res)
		dumpWire(w, os.Getenv("VERIF_DEBUG"))
		c06Final(m, sp.Name, res)
		// ---- the first two updates of an origin nobody has heard of reach x in the same instant over two different
		// neighbours, the older one possibly handled second; goroutines are held back at random lock sites (real
		// time).  Whatever the interleaving, x's picture of the origin must end up being the newer update's.
		if p.Twins > 0 && len(res.Violations) == 0 && os.Getenv("VERIF_NO_REALTIME") == "" {
			installYields(res.Seed, 0, "none")
			stopNoise := installLockNoise(res.Seed, 0.5)
			l2, sess2, err := m.AttachScripted(x, simnet.LinkCfg{Name: "S2", Latency: time.Millisecond + 911*time.Nanosecond, FIFO: true}, "zt", 1)
			if err == nil {
				sp2 := simnet.NewScriptPeer(w, "zt", x.ID, 1, l2, sess2)
				sp2.Handshake()
				time.Sleep(2 * time.Second)
				lat1, lat2 := time.Millisecond+137*time.Nanosecond, time.Millisecond+911*time.Nanosecond
				for round := 0; round < p.Twins && len(res.Violations) == 0; round++ {
					origin := fmt.Sprintf("nw%d", round)
					older := &simnet.RoutingUpdate{NodeID: origin, UpdateID: sp.NextID(), UpdateEpoch: 5 << 24, UpdateSequence: 1, Connections: map[string]float64{"zs": 1}}
					newer := &simnet.RoutingUpdate{NodeID: origin, UpdateID: sp.NextID(), UpdateEpoch: 5 << 24, UpdateSequence: 2, Connections: map[string]float64{"zs": 1, "zt": 1}}
					first, second := sp, sp2 // who carries the newer one
					la, lb := lat1, lat2
					if simnet.H(res.Seed, "twin", round)%2 == 0 {
						first, second, la, lb = sp2, sp, lat2, lat1
					}
					at := w.Now() + 50*time.Millisecond
					done := make(chan struct{}, 2)
					go func() {
						w.SleepUntil(at - la)
						n := *newer
						n.ForwardingNode = first.Name
						_ = first.SendRoute(&n)
						done <- struct{}{}
					}()
					go func() {
						w.SleepUntil(at - lb)
						o := *older
						o.ForwardingNode = second.Name
						_ = second.SendRoute(&o)
						done <- struct{}{}
					}()
					<-done
					<-done
					time.Sleep(300 * time.Millisecond)
					simnet.Quiesce()
					got := x.Net().Status().KnownConnectionCosts[origin]
					res.Add("probe_twin_first_updates", 1)
					if !reflect.DeepEqual(map[string]float64(got), newer.Connections) {
						res.Violate("c06:stale-applied|twin-first-updates", "x received sequence 2 (%v) and sequence 1 (%v) of the new origin %s in one instant over two neighbours; its picture of %s is %v", newer.Connections, older.Connections, origin, origin, got)
					}
				}
				sp2.Stop()
			}
			stopNoise()
		}
		res.SimSeconds = w.Now().Seconds()
		res.LogHash, res.LogLines = w.CanonicalLogHash()
		res.Merge(w.Stats())
		vs := simnet.SortedKeys(variantsHit)
		if len(vs) > 0 {
			res.Class = fmt.Sprintf("n=%d l=%d probes=%s", len(p.Nodes), len(p.Links), strings.Join(vs, "+"))
		}
		sp.Stop()
		for _, n := range m.Nodes {
			n.Stop()
		}
		time.Sleep(3 * time.Second)
	})
}

// c06Handshakes returns the routing messages that node x consumed as session handshakes:
// the first routing message handed to it on each session.
func c06Handshakes(w *simnet.World, x string) map[*simnet.WireRec]bool {
	type sk struct {
		link string
		gen  int
	}
	first := map[sk]*simnet.WireRec{}
	firstAt := map[sk]time.Duration{}
	for _, r := range w.Wire() {
		if r.Route == nil || r.To != x {
			continue
		}
		for _, d := range w.DeliveredAt(r) {
			k := sk{r.Link, r.Gen}
			if cur, ok := firstAt[k]; !ok || d < cur {
				first[k], firstAt[k] = r, d
			}
		}
	}
	out := map[*simnet.WireRec]bool{}
	for _, r := range first {
		out[r] = true
	}
	return out
}

// c06History checks the relay discipline over the whole wire record.
func c06History(w *simnet.World, m *simnet.Mesh, script string, maxHop time.Duration, n int, seenExpire time.Duration, res *simnet.Result) {
	wire := w.Wire()
	type key struct{ node, id string }
	type arrival struct {
		at   time.Duration
		link string
		gen  int
		tie  bool
	}
	firstArr := map[key]*arrival{}
	_ = firstArr
	type hsKey struct {
		node, link string
		gen        int
	}
	handshakeSeen := map[hsKey]bool{}
	origin := map[string]*simnet.RoutingUpdate{}
	firstSend := map[string]time.Duration{}
	lastSend := map[string]time.Duration{}
	type deliv struct {
		at time.Duration
		r  *simnet.WireRec
	}
	var delivs []deliv
	for _, r := range wire {
		if r.Route == nil {
			continue
		}
		id := r.Route.UpdateID
		if _, ok := origin[id]; !ok && r.Route.ForwardingNode == r.Route.NodeID {
			origin[id] = r.Route
		}
		if r.From != script { // the script replays its own updates on purpose
			if _, ok := firstSend[id]; !ok {
				firstSend[id] = r.At
			}
			lastSend[id] = r.At
		}
		for _, d := range w.DeliveredAt(r) {
			delivs = append(delivs, deliv{d, r})
		}
	}
	sort.SliceStable(delivs, func(i, j int) bool { return delivs[i].at < delivs[j].at })
	_ = handshakeSeen
	// Which copy of an update a node processed first is recorded by the node itself: the yield point right after the
	// dedup check is reached exactly once per (node, update), by the copy that passed it, and names the neighbour
	// that copy came from.  (Inferring it from delivery times is wrong as soon as a session's goroutine is busy:
	// a copy delivered earlier on one session can be processed after a copy delivered later on another.)
	firstFrom := map[key]string{}
	lastPass := map[key]time.Time{}
	for _, v := range yieldVisits() {
		if v.Kind != "route.seen" {
			continue
		}
		parts := strings.SplitN(v.Key, "|", 3)
		if len(parts) != 3 {
			continue
		}
		k := key{parts[0], parts[2]}
		if lp, ok := lastPass[k]; ok && v.At.Sub(lp) < seenExpire {
			// (after the dedup entry has expired a replay passes the dedup check again and is stopped by the epoch/sequence rule)
			res.Violate("c06:processed-twice", "%s let update %s pass its dedup check twice within %v (dedup window %v)", k.node, k.id, v.At.Sub(lp), seenExpire)
		}
		lastPass[k] = v.At
		if _, ok := firstFrom[k]; !ok {
			firstFrom[k] = parts[1]
		}
	}
	type skey struct {
		node, id, link string
		gen            int
	}
	sent := map[skey]int{}
	for _, r := range wire {
		if r.Route == nil || r.From == script {
			continue
		}
		id := r.Route.UpdateID
		sent[skey{r.From, id, r.Link, r.Gen}]++
		if r.Route.ForwardingNode != r.From {
			res.Violate("c06:forwarder-field", "%s sent update %s with ForwardingNode=%q", r.From, id, r.Route.ForwardingNode)
		}
		if r.Route.NodeID != r.From {
			// a relay
			res.Add("relays_checked", 1)
			if o := origin[id]; o != nil {
				if o.NodeID != r.Route.NodeID || o.UpdateEpoch != r.Route.UpdateEpoch || o.UpdateSequence != r.Route.UpdateSequence ||
					!reflect.DeepEqual(o.Connections, r.Route.Connections) || o.SuspectedDuplicate != r.Route.SuspectedDuplicate {
					res.Violate("c06:relay-altered", "%s relayed update %s with altered content: %+v vs original %+v", r.From, id, r.Route, o)
				}
			}
			from, ok := firstFrom[key{r.From, id}]
			if !ok {
				res.Violate("c06:relay-without-receipt", "%s relayed update %s it never processed", r.From, id)
			} else if from == r.To {
				res.Violate("c06:relayed-back", "%s relayed update %s (origin %s) back to %s, the neighbour it came from", r.From, id, r.Route.NodeID, r.To)
			}
		}
	}
	for k, c := range sent {
		if c > 1 {
			res.Violate("c06:relayed-twice", "%s sent update %s %d times on session %s#%d", k.node, k.id, c, k.link, k.gen)
		}
	}
	bound := time.Duration(n+1)*maxHop + time.Second
	for id, f := range firstSend {
		if lastSend[id]-f > bound {
			res.Violate("c06:flood-not-terminating", "update %s was still being sent %v after it first appeared (bound %v)", id, lastSend[id]-f, bound)
		}
	}
	if w.OverBudget() {
		res.Violate("c06:message-budget", "run exceeded the message budget: flooding does not terminate")
	}
}

// c06Final: after faults stop every node's picture of every reachable origin is that origin's real adjacency.
func c06Final(m *simnet.Mesh, script string, res *simnet.Result) {
	g := m.TrueGraph()
	dist := g.AllPairs()
	for _, x := range simnet.SortedKeys(g) {
		kcc := m.Nodes[x].Net().Status().KnownConnectionCosts
		for y := range dist[x] {
			want := map[string]float64{}
			for nb, c := range g[y] {
				want[nb] = c
			}
			got := map[string]float64{}
			for nb, c := range kcc[y] {
				if nb != script {
					got[nb] = c
				}
			}
			if !reflect.DeepEqual(want, got) {
				res.Violate("c06:final-picture", "after faults stopped %s's picture of %s is %v, real adjacency %v", x, y, got, want)
			}
			res.Add("pictures_checked", 1)
		}
	}
}

func TestC06(t *testing.T) {
	quiet()
	simnet.RunCheck(t, simnet.Check{ID: "C06", Gen: genC06, NewPlan: func() any { return &C06Plan{} }, Run: runC06})
}
